(* Sparse matrices over an abstract carrier with a ring homomorphism into R:
   executable checkers for matrix identities and their soundness as statements about
   dense sums over the reals.  Instantiated with Bignums.BigQ in Lib/CertQ.v. *)
From Coq Require Import Reals ZArith NArith List Bool Lia Lra Arith.
From RD Require Import Model.DecayR.
Import ListNotations.
Local Open Scope R_scope.

(* ---------- facts about sumn *)
Lemma sumn_ext : forall n f g, (forall k, (k < n)%nat -> f k = g k) -> sumn n f = sumn n g.
Proof.
  induction n as [|n IH]; intros f g H; simpl; [reflexivity|].
  rewrite (IH f g); [|intros; apply H; lia]. rewrite H; [reflexivity|lia].
Qed.

Lemma sumn_plus : forall n f g, sumn n (fun k => f k + g k) = sumn n f + sumn n g.
Proof. induction n as [|n IH]; intros; simpl; [lra|rewrite IH; lra]. Qed.

Lemma sumn_scal : forall n a f, sumn n (fun k => a * f k) = a * sumn n f.
Proof. induction n as [|n IH]; intros; simpl; [lra|rewrite IH; lra]. Qed.

Lemma sumn_zero : forall n f, (forall k, (k < n)%nat -> f k = 0) -> sumn n f = 0.
Proof.
  induction n as [|n IH]; intros f H; simpl; [reflexivity|].
  rewrite IH; [|intros; apply H; lia]. rewrite H; [lra|lia].
Qed.

Lemma sumn_delta : forall n j f, (j < n)%nat ->
  sumn n (fun k => (if Nat.eqb j k then 1 else 0) * f k) = f j.
Proof.
  induction n as [|n IH]; intros j f Hj; [lia|]. simpl.
  destruct (Nat.eq_dec j n) as [->|Hne].
  - rewrite Nat.eqb_refl. rewrite sumn_zero; [lra|].
    intros k Hk. destruct (Nat.eqb_spec n k); [lia|lra].
  - rewrite IH by lia. destruct (Nat.eqb_spec j n); [lia|lra].
Qed.

Lemma sumn_swap : forall n m (f : nat -> nat -> R),
  sumn n (fun i => sumn m (fun j => f i j)) = sumn m (fun j => sumn n (fun i => f i j)).
Proof.
  induction n as [|n IH]; intros m f; simpl.
  - symmetry. apply sumn_zero. reflexivity.
  - rewrite IH. rewrite <- sumn_plus. reflexivity.
Qed.

Section Sparse.
  Variable T : Type.
  Variables (tadd tmul : T -> T -> T) (topp : T -> T) (t0 t1 : T) (teqb : T -> T -> bool).
  Variable v : T -> R.
  Hypothesis v_add : forall x y, v (tadd x y) = v x + v y.
  Hypothesis v_mul : forall x y, v (tmul x y) = v x * v y.
  Hypothesis v_opp : forall x, v (topp x) = - v x.
  Hypothesis v_0 : v t0 = 0.
  Hypothesis v_1 : v t1 = 1.
  Hypothesis v_eqb : forall x y, teqb x y = true -> v x = v y.

  Definition row := list (N * T).
  Definition mat := list row.

  (* entry j of a row: the sum of all entries stored under column j *)
  Fixpoint get (r : row) (j : N) : T :=
    match r with
    | [] => t0
    | (k, x) :: r' => if N.eqb k j then tadd x (get r' j) else get r' j
    end.

  Definition mrow (m : mat) (i : nat) : row := nth i m [].
  Definition ent (m : mat) (i j : nat) : R := v (get (mrow m i) (N.of_nat j)).

  Definition cols (r : row) : list N := map fst r.

  Lemma get_notin : forall r j, ~ In j (cols r) -> get r j = t0.
  Proof.
    induction r as [|[k x] r IH]; intros j Hj; simpl; [reflexivity|].
    destruct (N.eqb_spec k j) as [->|Hne]; [exfalso; apply Hj; simpl; auto|].
    apply IH. intro H; apply Hj; simpl; auto.
  Qed.

  (* sum over a row, weighted *)
  Fixpoint rsum (r : row) (f : nat -> R) : R :=
    match r with
    | [] => 0
    | (k, x) :: r' => v x * f (N.to_nat k) + rsum r' f
    end.

  Definition row_in_range (n : N) (r : row) : bool := forallb (fun kx => N.ltb (fst kx) n) r.

  Lemma row_in_range_spec : forall n r, row_in_range n r = true ->
    forall k x, In (k, x) r -> (N.to_nat k < N.to_nat n)%nat.
  Proof.
    intros n r H k x Hin. unfold row_in_range in H. rewrite forallb_forall in H.
    specialize (H _ Hin). simpl in H. apply N.ltb_lt in H. lia.
  Qed.

  Lemma sum_row : forall (r : row) (f : nat -> R) n,
    (forall k x, In (k, x) r -> (N.to_nat k < n)%nat) ->
    sumn n (fun k => v (get r (N.of_nat k)) * f k) = rsum r f.
  Proof.
    induction r as [|[k0 x] r IH]; intros f n Hr; simpl.
    - apply sumn_zero. intros; rewrite v_0; lra.
    - rewrite <- (IH f n) by (intros k y Hin; apply (Hr k y); simpl; auto).
      assert (Hk0 : (N.to_nat k0 < n)%nat) by (apply (Hr k0 x); simpl; auto).
      rewrite <- (sumn_delta n (N.to_nat k0) (fun k => v x * f k)) by exact Hk0.
      rewrite <- sumn_plus. apply sumn_ext. intros k Hk.
      destruct (N.eqb_spec k0 (N.of_nat k)) as [E|E].
      + subst k0. rewrite Nat2N.id, Nat.eqb_refl, v_add. lra.
      + destruct (Nat.eqb_spec (N.to_nat k0) k) as [E'|E']; [exfalso; apply E; lia|lra].
  Qed.

  (* row-vector times matrix, unmerged *)
  Definition scale_row (x : T) (r : row) : row := map (fun jy => (fst jy, tmul x (snd jy))) r.
  Definition rowmul (r : row) (B : mat) : row :=
    flat_map (fun kx => scale_row (snd kx) (mrow B (N.to_nat (fst kx)))) r.

  Lemma get_app : forall r1 r2 j, v (get (r1 ++ r2) j) = v (get r1 j) + v (get r2 j).
  Proof.
    induction r1 as [|[k x] r1 IH]; intros r2 j; simpl.
    - rewrite v_0; lra.
    - destruct (N.eqb k j); [rewrite !v_add, IH; lra|apply IH].
  Qed.

  Lemma get_scale : forall x r j, v (get (scale_row x r) j) = v x * v (get r j).
  Proof.
    induction r as [|[k y] r IH]; intros j; simpl.
    - rewrite v_0; lra.
    - destruct (N.eqb k j); [rewrite !v_add, v_mul, IH; lra|apply IH].
  Qed.

  Lemma get_rowmul : forall r B j,
    v (get (rowmul r B) j) = rsum r (fun k => v (get (mrow B k) j)).
  Proof.
    induction r as [|[k x] r IH]; intros B j; simpl.
    - apply v_0.
    - rewrite get_app, get_scale, IH. reflexivity.
  Qed.

  (* dense product entry = entry of the sparse row product *)
  Lemma prod_entry : forall (A B : mat) n i j,
    row_in_range n (mrow A i) = true ->
    sumn (N.to_nat n) (fun k => ent A i k * ent B k j)
    = v (get (rowmul (mrow A i) B) (N.of_nat j)).
  Proof.
    intros A B n i j Hr. rewrite get_rowmul. unfold ent.
    rewrite (sum_row (mrow A i) (fun k => v (get (mrow B k) (N.of_nat j))) (N.to_nat n)).
    - reflexivity.
    - apply row_in_range_spec. exact Hr.
  Qed.

  (* ---------- checker: row i of A*B equals the row vector [want] *)
  Definition check_row_eq (p want : row) : bool :=
    forallb (fun j => teqb (get p j) (get want j)) (nodup N.eq_dec (cols p ++ cols want)).

  Lemma check_row_eq_sound : forall p want, check_row_eq p want = true ->
    forall j, v (get p j) = v (get want j).
  Proof.
    intros p want H j. unfold check_row_eq in H. rewrite forallb_forall in H.
    destruct (in_dec N.eq_dec j (cols p ++ cols want)) as [Hin|Hnin].
    - apply v_eqb. apply H. apply nodup_In. exact Hin.
    - rewrite !get_notin; [reflexivity| |]; intro Hc; apply Hnin; apply in_or_app; auto.
  Qed.

  (* all rows of a matrix, with their index *)
  Fixpoint forall_rows (f : N -> row -> bool) (i : N) (m : mat) : bool :=
    match m with
    | [] => true
    | r :: m' => f i r && forall_rows f (N.succ i) m'
    end.

  Lemma forall_rows_spec : forall f m i0, forall_rows f i0 m = true ->
    forall i, (i < length m)%nat -> f (i0 + N.of_nat i)%N (nth i m []) = true.
  Proof.
    induction m as [|r m IH]; intros i0 H i Hi; simpl in *; [lia|].
    apply andb_prop in H. destruct H as [H1 H2].
    destruct i as [|i].
    - replace (i0 + N.of_nat 0)%N with i0 by lia. exact H1.
    - specialize (IH (N.succ i0) H2 i ltac:(lia)).
      replace (i0 + N.of_nat (S i))%N with (N.succ i0 + N.of_nat i)%N by lia. exact IH.
  Qed.

  Definition mat_in_range (n : N) (m : mat) : bool :=
    Nat.eqb (length m) (N.to_nat n) && forallb (row_in_range n) m.

  Lemma mat_in_range_row : forall n m i, mat_in_range n m = true -> row_in_range n (mrow m i) = true.
  Proof.
    intros n m i H. unfold mat_in_range in H. apply andb_prop in H. destruct H as [_ H].
    rewrite forallb_forall in H. unfold mrow.
    destruct (Nat.lt_ge_cases i (length m)) as [Hi|Hi].
    - apply H. apply nth_In. exact Hi.
    - rewrite nth_overflow by exact Hi. reflexivity.
  Qed.

  Lemma mat_in_range_len : forall n m, mat_in_range n m = true -> length m = N.to_nat n.
  Proof.
    intros n m H. unfold mat_in_range in H. apply andb_prop in H. destruct H as [H _].
    apply Nat.eqb_eq. exact H.
  Qed.

  (* A * B = I *)
  Definition check_prod_id (n : N) (A B : mat) : bool :=
    mat_in_range n A && mat_in_range n B &&
    forall_rows (fun i r => check_row_eq (rowmul r B) [(i, t1)]) 0%N A.

  Theorem check_prod_id_sound : forall n A B, check_prod_id n A B = true ->
    forall i j, (i < N.to_nat n)%nat -> (j < N.to_nat n)%nat ->
      sumn (N.to_nat n) (fun k => ent A i k * ent B k j) = if Nat.eqb i j then 1 else 0.
  Proof.
    intros n A B H i j Hi Hj. unfold check_prod_id in H.
    apply andb_prop in H. destruct H as [H H3]. apply andb_prop in H. destruct H as [H1 H2].
    rewrite (prod_entry A B n i j) by (apply mat_in_range_row; exact H1).
    pose proof (forall_rows_spec _ _ _ H3 i) as Hrow.
    rewrite (mat_in_range_len _ _ H1) in Hrow. specialize (Hrow Hi). simpl in Hrow.
    change (nth i A []) with (mrow A i) in Hrow.
    rewrite (check_row_eq_sound _ _ Hrow (N.of_nat j)). simpl.
    destruct (N.eqb_spec (N.of_nat i) (N.of_nat j)) as [E|E].
    - apply Nat2N.inj in E. subst j. rewrite Nat.eqb_refl, v_add, v_1, v_0. lra.
    - destruct (Nat.eqb_spec i j) as [E'|E']; [subst; contradiction|apply v_0].
  Qed.

  (* M * C = C * D with D = diag(-mu):   (M C)_ik = - mu_k * C_ik *)
  Definition scale_cols (mu : list T) (r : row) : row :=
    map (fun kx => (fst kx, tmul (topp (nth (N.to_nat (fst kx)) mu t0)) (snd kx))) r.

  Lemma get_scale_cols : forall mu r j,
    v (get (scale_cols mu r) j) = - v (nth (N.to_nat j) mu t0) * v (get r j).
  Proof.
    induction r as [|[k x] r IH]; intros j; simpl.
    - rewrite v_0; lra.
    - destruct (N.eqb_spec k j) as [->|E].
      + rewrite !v_add, v_mul, v_opp, IH. lra.
      + apply IH.
  Qed.

  Definition check_diag (n : N) (M C : mat) (mu : list T) : bool :=
    mat_in_range n M && mat_in_range n C &&
    forall_rows (fun i r => check_row_eq (rowmul r C) (scale_cols mu (mrow C (N.to_nat i)))) 0%N M.

  Theorem check_diag_sound : forall n M C mu, check_diag n M C mu = true ->
    forall i k, (i < N.to_nat n)%nat -> (k < N.to_nat n)%nat ->
      sumn (N.to_nat n) (fun m => ent M i m * ent C m k)
      = - v (nth k mu t0) * ent C i k.
  Proof.
    intros n M C mu H i k Hi Hk. unfold check_diag in H.
    apply andb_prop in H. destruct H as [H H3]. apply andb_prop in H. destruct H as [H1 H2].
    rewrite (prod_entry M C n i k) by (apply mat_in_range_row; exact H1).
    pose proof (forall_rows_spec _ _ _ H3 i) as Hrow.
    rewrite (mat_in_range_len _ _ H1) in Hrow. specialize (Hrow Hi). simpl in Hrow.
    change (nth i M []) with (mrow M i) in Hrow.
    rewrite (check_row_eq_sound _ _ Hrow (N.of_nat k)).
    rewrite get_scale_cols. rewrite !Nat2N.id. reflexivity.
  Qed.
End Sparse.
