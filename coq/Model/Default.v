(* The shipped data set as an instance of [dataset] (both pickle generations). *)
From RD Require Import Base Model.Dataset.
From RD.Gen.Default Require Names Meta CF CIF S18 S19 C18 C19 CI18 CI19.

Definition Default : dataset :=
  DS Names.names Meta.hldata Meta.progeny Meta.bfs Meta.modes Meta.masses_f Meta.year_f Meta.year_dec
     CF.cf_rows CIF.cif_rows S19.mu S19.masses_e S19.year_e C19.c_rows CI19.ci_rows.

Definition Default18 : dataset :=
  DS Names.names Meta.hldata Meta.progeny Meta.bfs Meta.modes Meta.masses_f Meta.year_f Meta.year_dec
     CF.cf_rows CIF.cif_rows S18.mu S18.masses_e S18.year_e C18.c_rows CI18.ci_rows.
