"""Implementation side of the decay correspondence (C01/C02/C03/C07) (PYTHONPATH=/repo).
stdin JSON: list of cases {"cls", "contents": {name: hex}, "unit", "t": hex, "tunit", "cum": bool, "split": [hex...]|null}
stdout JSON: per case: n0 (exact rationals [p,q] per name), t_seconds [p,q], out {name: hex}, cum {name: hex},
activities/masses finite checks, split result if requested."""
import json, sys, math, os
from fractions import Fraction

def main():
    import sympy
    import radioactivedecay as rd
    res = []
    loaded = {}
    def dataset(c):
        if c.get("ds_dir"):
            if c["ds_dir"] not in loaded:
                from radioactivedecay.decaydata import load_dataset
                loaded[c["ds_dir"]] = load_dataset(c.get("ds", "rand"), c["ds_dir"], load_sympy=True)
            return loaded[c["ds_dir"]]
        if c.get("ds") == "synth":
            if "synth" not in loaded:
                from radioactivedecay.decaydata import load_dataset
                loaded["synth"] = load_dataset("synth", os.environ["VERIF_SYNTH_DIR"], load_sympy=True)
            return loaded["synth"]
        return rd.DEFAULTDATA
    for c in json.load(sys.stdin):
        hp = c["cls"] == "InventoryHP"
        cls = rd.InventoryHP if hp else rd.Inventory
        r = {}
        try:
            cont = {k: float.fromhex(v) for k, v in c["contents"].items()}
            t = float.fromhex(c["t"])
            DS = dataset(c)
            inv = cls(cont, c["unit"], True, DS)
            # an earlier history on the SAME object: calculations, then in-place changes
            for op in c.get("pre", []):
                if op[0] == "decay":
                    inv.decay(float.fromhex(op[1]), "s")
                elif op[0] == "cumulative_decays":
                    inv.cumulative_decays(float.fromhex(op[1]), "s")
                elif op[0] == "series":
                    inv.decay_time_series(float.fromhex(op[1]), "s", "linear", "num", npoints=2)
                elif op[0] == "fractions":
                    inv.mole_fractions()
                elif op[0] == "add":
                    inv.add({k: float.fromhex(v) for k, v in op[1].items()}, "num")
                elif op[0] == "subtract":
                    inv.subtract({k: float.fromhex(v) for k, v in op[1].items()}, "num")
                elif op[0] == "remove":
                    inv.remove(op[1])
                elif op[0] == "remove_id":
                    inv.remove(rd.Nuclide(op[1], DS).id)
                elif op[0] == "remove_nuclide":
                    inv.remove(rd.Nuclide(op[1], DS))
                elif op[0] == "remove_list":
                    inv.remove(list(op[1]))
            if hp:
                r["n0"] = {}
                for k, v in inv.contents.items():
                    if v.is_Rational:
                        r["n0"][k] = [str(int(v.p)), str(int(v.q))]
                    else:
                        r["n0"][k] = None      # nsimplify produced a surd, or an activity input (multiple of 1/ln2)
                ts = inv._convert_decay_time(sympy.nsimplify(t), c["tunit"])
                if ts.is_Rational:
                    r["t"] = [str(int(ts.p)), str(int(ts.q))]
                else:
                    r["t"] = None
            else:
                r["n0"] = {}
                for k, v in inv.contents.items():
                    f = Fraction(float(v))
                    r["n0"][k] = [str(f.numerator), str(f.denominator)]
                f = Fraction(float(inv._convert_decay_time(t, c["tunit"])))
                r["t"] = [str(f.numerator), str(f.denominator)]
            dec = inv.decay(t, c["tunit"])
            num = dec.numbers()
            r["out"] = {k: float(v).hex() for k, v in num.items()}
            r["keys_sorted"] = list(num) == sorted(num)
            r["cls_out"] = type(dec).__name__
            acts = dec.activities()
            r["finite"] = all(math.isfinite(float(x)) for x in list(num.values()) + list(acts.values()) +
                              list(dec.masses().values()) + list(dec.moles().values()))
            r["stable_act"] = {k: float(a).hex() for k, a in acts.items() if DS.half_life(k) == math.inf}
            if c.get("cum"):
                r["cum"] = {k: float(v).hex() for k, v in inv.cumulative_decays(t, c["tunit"]).items()}
            if c.get("split"):
                cur = inv
                tot = Fraction(0)
                for ts_ in c["split"]:
                    tv = float.fromhex(ts_)
                    cur = cur.decay(tv, c["tunit"])
                    if hp:
                        tq = inv._convert_decay_time(sympy.nsimplify(tv), c["tunit"])
                        tot = (tot + Fraction(int(tq.p), int(tq.q))) if tq.is_Rational and tot is not None else None
                    else:
                        tot += Fraction(float(inv._convert_decay_time(tv, c["tunit"])))
                r["split_out"] = {k: float(v).hex() for k, v in cur.numbers().items()}
                r["split_t"] = [str(tot.numerator), str(tot.denominator)] if tot is not None else None
            if c.get("lin"):
                a = float.fromhex(c["lin"]["a"])
                if hp and a == int(a):
                    a = int(a)
                Y = cls({k: float.fromhex(v) for k, v in c["lin"]["contents"].items()}, c["unit"], True, DS)
                comb = inv * a + Y
                r["lin_n0"] = {}
                for k, v in comb.contents.items():
                    if hp:
                        r["lin_n0"][k] = [str(int(v.p)), str(int(v.q))] if getattr(v, "is_Rational", False) else None
                    else:
                        f = Fraction(float(v)); r["lin_n0"][k] = [str(f.numerator), str(f.denominator)]
                r["lin_comb"] = {k: float(v).hex() for k, v in comb.decay(t, c["tunit"]).numbers().items()}
                parts = inv.decay(t, c["tunit"]) * a + Y.decay(t, c["tunit"])
                r["lin_sum"] = {k: float(v).hex() for k, v in parts.numbers().items()}
                # the same sum built IN PLACE on an object that has already been used for a calculation
                Zi = cls({k: float.fromhex(v) for k, v in c["contents"].items()}, c["unit"], True, DS)
                Zi.decay(t, c["tunit"]); Zi.cumulative_decays(t, c["tunit"])
                Zi.add({k: float.fromhex(v) for k, v in c["lin"]["contents"].items()}, c["unit"])
                r["inpl_n0"] = {}
                for k, v in Zi.contents.items():
                    if hp:
                        r["inpl_n0"][k] = [str(int(v.p)), str(int(v.q))] if getattr(v, "is_Rational", False) else None
                    else:
                        f = Fraction(float(v)); r["inpl_n0"][k] = [str(f.numerator), str(f.denominator)]
                r["inpl_out"] = {k: float(v).hex() for k, v in Zi.decay(t, c["tunit"]).numbers().items()}
            if c.get("zero"):
                z = inv.decay(0.0, c["tunit"]).numbers()
                r["zero_out"] = {k: float(v).hex() for k, v in z.items()}
                # the flow does not depend on what OTHER inventories were used for before: an unrelated inventory that holds this
                # chain's stable end members (which `inv` itself does not hold) accumulates its decays, then the same zero-time decay
                ends = [k for k in num if DS.half_life(k) == math.inf and k not in inv.contents]
                if ends:
                    W = cls({**{k: 12345.0 for k in ends}, **{k: 777.0 for k in list(inv.contents)[:1]}}, "num", True, DS)
                    W.cumulative_decays(t if t > 0 else 1.0, c["tunit"])
                    z2 = inv.decay(0.0, c["tunit"]).numbers()
                    r["zero_after_other"] = {k: float(v).hex() for k, v in z2.items()}
                    r["zero_other"] = {k: 12345.0 for k in ends}
        except Exception as e:
            r["err"] = type(e).__name__ + ": " + str(e)[:100]
        res.append(r)
    json.dump(res, sys.stdout)
main()
