(* Proofs for C08 (Props/C08.v): inventory arithmetic of Model/Inventory.v, for every number domain.
   Self-contained: string order facts, ordered-dict lemmas, insertion sort, add_dictionaries,
   remove, the constructor and the sortedness invariant of operation histories. *)
From Coq Require Import ZArith NArith List Bool Lia.
From RD Require Import Base Lib.Py Lib.Num Gen.Tables Gen.ConvGen Gen.InvGen Gen.UtilsGen Model.Inventory.
Import ListNotations.

(* ------------------------------------------------------------------ *)
(* str equality and order                                              *)

Lemma s_eqb_eq : forall a b : str, s_eqb a b = true <-> a = b.
Proof.
  induction a as [|x a IH]; destruct b as [|y b]; simpl; split; intro H;
    try reflexivity; try discriminate.
  - apply andb_true_iff in H. destruct H as [H1 H2].
    apply N.eqb_eq in H1. apply IH in H2. subst. reflexivity.
  - inversion H; subst. apply andb_true_iff. split.
    + apply N.eqb_refl.
    + apply IH. reflexivity.
Qed.

Lemma s_eqb_refl : forall a : str, s_eqb a a = true.
Proof. intro a. apply s_eqb_eq. reflexivity. Qed.

Lemma s_eqb_neq : forall a b : str, s_eqb a b = false <-> a <> b.
Proof.
  intros a b. split.
  - intros H E. apply s_eqb_eq in E. rewrite E in H. discriminate.
  - intro H. destruct (s_eqb a b) eqn:E; [|reflexivity].
    apply s_eqb_eq in E. contradiction.
Qed.

Lemma s_eqb_spec : forall a b : str, reflect (a = b) (s_eqb a b).
Proof.
  intros a b. destruct (s_eqb a b) eqn:E; constructor.
  - apply s_eqb_eq. exact E.
  - apply s_eqb_neq. exact E.
Qed.

Lemma s_ltb_irrefl : forall a : str, s_ltb a a = false.
Proof.
  induction a as [|x a IH]; simpl; [reflexivity|].
  rewrite N.ltb_irrefl. exact IH.
Qed.

Lemma s_ltb_trans : forall a b c : str,
  s_ltb a b = true -> s_ltb b c = true -> s_ltb a c = true.
Proof.
  induction a as [|x a IH]; destruct b as [|y b]; destruct c as [|z c]; simpl;
    intros H1 H2; try reflexivity; try discriminate.
  destruct (N.ltb_spec x y) as [Hxy|Hxy].
  - destruct (N.ltb_spec y z) as [Hyz|Hyz].
    + destruct (N.ltb_spec x z) as [Hxz|Hxz]; [reflexivity|lia].
    + destruct (N.ltb_spec z y) as [Hzy|Hzy]; [discriminate|].
      assert (y = z) by lia. subst z.
      destruct (N.ltb_spec x y) as [_|Hc]; [reflexivity|lia].
  - destruct (N.ltb_spec y x) as [Hyx|Hyx]; [discriminate|].
    assert (x = y) by lia. subst y.
    destruct (N.ltb_spec x z) as [Hxz|Hxz]; [reflexivity|].
    destruct (N.ltb_spec z x) as [Hzx|Hzx]; [discriminate|].
    eapply IH; eassumption.
Qed.

Lemma s_ltb_tri : forall a b : str, s_ltb a b = false -> s_ltb b a = false -> a = b.
Proof.
  induction a as [|x a IH]; destruct b as [|y b]; simpl; intros H1 H2;
    try reflexivity; try discriminate.
  destruct (N.ltb_spec x y) as [Hxy|Hxy]; [discriminate|].
  destruct (N.ltb_spec y x) as [Hyx|Hyx]; [discriminate|].
  assert (x = y) by lia. subst y. f_equal. apply IH; assumption.
Qed.

Lemma s_ltb_neq : forall a b : str, s_ltb a b = true -> a <> b.
Proof. intros a b H E. subst b. rewrite s_ltb_irrefl in H. discriminate. Qed.

Lemma s_ltb_asym : forall a b : str, s_ltb a b = true -> s_ltb b a = false.
Proof.
  intros a b H. destruct (s_ltb b a) eqn:E; [|reflexivity].
  pose proof (s_ltb_trans _ _ _ H E) as Hc. rewrite s_ltb_irrefl in Hc. discriminate.
Qed.

(* ------------------------------------------------------------------ *)
(* strictly sorted key lists                                           *)

Definition klt (a b : str) : Prop := s_ltb a b = true.

Fixpoint ksorted (l : list str) : Prop :=
  match l with
  | [] => True
  | a :: r => Forall (klt a) r /\ ksorted r
  end.

Lemma ksorted_NoDup : forall l, ksorted l -> NoDup l.
Proof.
  induction l as [|a r IH]; simpl; intro H; constructor.
  - destruct H as [H _]. intro Hin. rewrite Forall_forall in H.
    apply H in Hin. apply s_ltb_neq in Hin. apply Hin. reflexivity.
  - apply IH. apply H.
Qed.

Section DictLemmas.
  Context {T : Type}.
  Notation dict := (@dict T).

  Lemma keys_sorted_iff : forall d : dict, keys_sorted d = true <-> ksorted (map fst d).
  Proof.
    induction d as [|[a v] r IH]; [simpl; tauto|].
    destruct r as [|[b w] r'].
    - simpl. split; [intros _; split; [constructor|exact I]|reflexivity].
    - change (keys_sorted ((a, v) :: (b, w) :: r'))
        with (s_ltb a b && keys_sorted ((b, w) :: r')).
      change (map fst ((a, v) :: (b, w) :: r')) with (a :: map fst ((b, w) :: r')).
      rewrite andb_true_iff, IH. simpl. split.
      + intros [Hab [Hb Hs]]. split; [|split; assumption].
        constructor; [exact Hab|].
        eapply Forall_impl; [|exact Hb]. intros c Hc. eapply s_ltb_trans; eassumption.
      + intros [Ha Hs]. split; [|exact Hs]. inversion Ha; assumption.
  Qed.

  Lemma keys_sorted_ext : forall d d' : dict,
    map fst d = map fst d' -> keys_sorted d = keys_sorted d'.
  Proof.
    intros d d' E.
    destruct (keys_sorted d) eqn:E1; destruct (keys_sorted d') eqn:E2; try reflexivity.
    - apply keys_sorted_iff in E1. rewrite E in E1. apply keys_sorted_iff in E1. congruence.
    - apply keys_sorted_iff in E2. rewrite <- E in E2. apply keys_sorted_iff in E2. congruence.
  Qed.

  Lemma keys_sorted_NoDup : forall d : dict, keys_sorted d = true -> NoDup (map fst d).
  Proof. intros d H. apply ksorted_NoDup. apply keys_sorted_iff. exact H. Qed.

  (* ---------- d_get *)
  Lemma d_get_none_iff : forall (d : dict) k, d_get d k = None <-> ~ In k (map fst d).
  Proof.
    induction d as [|[a v] r IH]; intro k; simpl.
    - split; [intros _ H; exact H|reflexivity].
    - destruct (s_eqb_spec a k) as [E|E].
      + split; [discriminate|]. intro H. exfalso. apply H. left. exact E.
      + rewrite IH. split.
        * intros H [H1|H1]; [contradiction|]. apply H. exact H1.
        * intros H H1. apply H. right. exact H1.
  Qed.

  Lemma d_get_some_in : forall (d : dict) k v, d_get d k = Some v -> In k (map fst d).
  Proof.
    intros d k v H. destruct (in_dec (list_eq_dec N.eq_dec) k (map fst d)) as [Hi|Hn]; [exact Hi|].
    apply d_get_none_iff in Hn. congruence.
  Qed.

  Lemma d_get_in_some : forall (d : dict) k, In k (map fst d) -> exists v, d_get d k = Some v.
  Proof.
    intros d k H. destruct (d_get d k) as [v|] eqn:E; [exists v; reflexivity|].
    apply d_get_none_iff in E. contradiction.
  Qed.

  Lemma d_mem_true_iff : forall (d : dict) k, d_mem d k = true <-> In k (map fst d).
  Proof.
    intros d k. unfold d_mem. split.
    - destruct (d_get d k) as [v|] eqn:E; [|discriminate]. intros _. eapply d_get_some_in; eassumption.
    - intro H. apply d_get_in_some in H. destruct H as [v Hv]. rewrite Hv. reflexivity.
  Qed.

  Lemma d_mem_false_iff : forall (d : dict) k, d_mem d k = false <-> ~ In k (map fst d).
  Proof.
    intros d k. rewrite <- d_mem_true_iff. destruct (d_mem d k); split; intro H;
      try reflexivity; try discriminate; try (intro; discriminate).
    exfalso. apply H. reflexivity.
  Qed.

  Lemma d_get_map : forall (f : T -> T) (d : dict) k,
    d_get (map (fun kv => (fst kv, f (snd kv))) d) k = option_map f (d_get d k).
  Proof.
    intros f d k. induction d as [|[a v] r IH]; simpl; [reflexivity|].
    destruct (s_eqb a k); [reflexivity|exact IH].
  Qed.

  Lemma keys_map : forall (f : T -> T) (d : dict),
    map fst (map (fun kv => (fst kv, f (snd kv))) d) = map fst d.
  Proof. intros f d. rewrite map_map. reflexivity. Qed.

  Lemma d_get_app : forall (d e : dict) k,
    d_get (d ++ e) k = match d_get d k with Some v => Some v | None => d_get e k end.
  Proof.
    induction d as [|[a v] r IH]; intros e k; simpl; [reflexivity|].
    destruct (s_eqb a k); [reflexivity|apply IH].
  Qed.

  (* ---------- insertion sort *)
  Lemma insert_keys_in : forall (kv : str * T) (d : dict) k,
    In k (map fst (insert_sorted kv d)) <-> k = fst kv \/ In k (map fst d).
  Proof.
    intros kv d k. induction d as [|x r IH]; simpl.
    - split; intros [H|H]; auto.
    - destruct (s_ltb (fst kv) (fst x)); simpl.
      + split; intros [H|H]; auto.
      + rewrite IH. split; intros H; tauto.
  Qed.

  Lemma insert_ksorted : forall (kv : str * T) (d : dict),
    ksorted (map fst d) -> ~ In (fst kv) (map fst d) ->
    ksorted (map fst (insert_sorted kv d)).
  Proof.
    intros kv d. induction d as [|x r IH]; simpl; intros Hs Hn.
    - split; [constructor|exact I].
    - destruct Hs as [Hx Hs]. destruct (s_ltb (fst kv) (fst x)) eqn:E; simpl.
      + split; [|split; assumption]. constructor; [exact E|].
        eapply Forall_impl; [|exact Hx]. intros c Hc. eapply s_ltb_trans; eassumption.
      + split.
        * apply Forall_forall. intros c Hc. apply insert_keys_in in Hc.
          destruct Hc as [Hc|Hc].
          -- subst c. destruct (s_ltb (fst x) (fst kv)) eqn:E2; [exact E2|].
             exfalso. apply Hn. left. apply s_ltb_tri; assumption.
          -- rewrite Forall_forall in Hx. apply Hx. exact Hc.
        * apply IH; [exact Hs|]. intro H. apply Hn. right. exact H.
  Qed.

  Lemma d_get_insert : forall k v (d : dict) k',
    ~ In k (map fst d) ->
    d_get (insert_sorted (k, v) d) k' = if s_eqb k k' then Some v else d_get d k'.
  Proof.
    intros k v d k'. induction d as [|[a w] r IH]; simpl; intro Hn; [reflexivity|].
    destruct (s_ltb k a); simpl; [reflexivity|].
    rewrite IH by (intro H; apply Hn; right; exact H).
    destruct (s_eqb_spec a k') as [E1|E1]; [|reflexivity].
    destruct (s_eqb_spec k k') as [E2|E2]; [|reflexivity].
    exfalso. apply Hn. left. congruence.
  Qed.

  Lemma sort_keys_in : forall (d : dict) k, In k (map fst (d_sort d)) <-> In k (map fst d).
  Proof.
    intros d k. induction d as [|x r IH]; simpl; [tauto|].
    rewrite insert_keys_in, IH. split; intros [H|H]; auto.
  Qed.

  Theorem sort_spec : forall d : dict, NoDup (map fst d) ->
    keys_sorted (d_sort d) = true /\ forall k, d_get (d_sort d) k = d_get d k.
  Proof.
    intros d Hnd. rewrite keys_sorted_iff.
    induction d as [|[a v] r IH]; simpl.
    - split; [exact I|reflexivity].
    - simpl in Hnd. inversion Hnd as [|a' r' Hn Hnd']; subst.
      destruct (IH Hnd') as [IH1 IH2].
      assert (Hn' : ~ In a (map fst (d_sort r))) by (rewrite sort_keys_in; exact Hn).
      split.
      + apply insert_ksorted; [exact IH1|exact Hn'].
      + intro k. rewrite d_get_insert by exact Hn'. rewrite IH2. reflexivity.
  Qed.

  (* ---------- d_set *)
  Lemma d_get_set : forall (d : dict) k v k',
    d_get (d_set d k v) k' = if s_eqb k k' then Some v else d_get d k'.
  Proof.
    induction d as [|[a w] r IH]; intros k v k'; simpl; [reflexivity|].
    destruct (s_eqb_spec a k) as [E|E]; simpl.
    - subst a. destruct (s_eqb k k'); reflexivity.
    - rewrite IH. destruct (s_eqb_spec a k') as [E1|E1]; [|reflexivity].
      destruct (s_eqb_spec k k') as [E2|E2]; [|reflexivity]. exfalso. congruence.
  Qed.

  Lemma d_set_keys_some : forall (d : dict) k v w,
    d_get d k = Some w -> map fst (d_set d k v) = map fst d.
  Proof.
    induction d as [|[a x] r IH]; intros k v w; simpl; [discriminate|].
    destruct (s_eqb a k); simpl; intro H; [reflexivity|].
    f_equal. eapply IH. exact H.
  Qed.

  Lemma d_set_none : forall (d : dict) k v, d_get d k = None -> d_set d k v = d ++ [(k, v)].
  Proof.
    induction d as [|[a x] r IH]; intros k v; simpl; [reflexivity|].
    destruct (s_eqb a k); simpl; intro H; [discriminate|].
    f_equal. apply IH. exact H.
  Qed.

  Lemma NoDup_snoc : forall (l : list str) k, NoDup l -> ~ In k l -> NoDup (l ++ [k]).
  Proof.
    induction l as [|a r IH]; intros k Hnd Hn; simpl.
    - constructor; [intros []|constructor].
    - inversion Hnd as [|a' r' Ha Hr]; subst. constructor.
      + intro H. apply in_app_or in H. destruct H as [H|[H|[]]]; [contradiction|].
        apply Hn. left. symmetry. exact H.
      + apply IH; [exact Hr|]. intro H. apply Hn. right. exact H.
  Qed.

  Lemma d_set_NoDup : forall (d : dict) k v, NoDup (map fst d) -> NoDup (map fst (d_set d k v)).
  Proof.
    intros d k v H. destruct (d_get d k) as [w|] eqn:E.
    - erewrite d_set_keys_some by exact E. exact H.
    - rewrite (d_set_none _ _ _ E). rewrite map_app. simpl.
      apply NoDup_snoc; [exact H|]. apply d_get_none_iff. exact E.
  Qed.

  (* ---------- d_pop *)
  Lemma d_pop_keys_in : forall (d : dict) k x, In x (map fst (d_pop d k)) -> In x (map fst d).
  Proof.
    induction d as [|[a w] r IH]; intros k x; simpl; [tauto|].
    destruct (s_eqb a k); simpl.
    - intro H. right. exact H.
    - intros [H|H]; [left; exact H|right; eapply IH; exact H].
  Qed.

  Lemma d_pop_ksorted : forall (d : dict) k, ksorted (map fst d) -> ksorted (map fst (d_pop d k)).
  Proof.
    induction d as [|[a w] r IH]; intros k; simpl; [tauto|].
    intros [Ha Hs]. destruct (s_eqb a k); simpl; [exact Hs|].
    split; [|apply IH; exact Hs].
    apply Forall_forall. intros x Hx. apply d_pop_keys_in in Hx.
    rewrite Forall_forall in Ha. apply Ha. exact Hx.
  Qed.

  Lemma d_pop_sorted : forall (d : dict) k, keys_sorted d = true -> keys_sorted (d_pop d k) = true.
  Proof. intros d k H. apply keys_sorted_iff. apply d_pop_ksorted. apply keys_sorted_iff. exact H. Qed.

  Lemma d_get_pop : forall (d : dict) k k', NoDup (map fst d) ->
    d_get (d_pop d k) k' = if s_eqb k k' then None else d_get d k'.
  Proof.
    induction d as [|[a w] r IH]; intros k k' Hnd; simpl.
    - destruct (s_eqb k k'); reflexivity.
    - simpl in Hnd. inversion Hnd as [|a' r' Ha Hr]; subst.
      destruct (s_eqb_spec a k) as [E|E]; simpl.
      + subst a. destruct (s_eqb_spec k k') as [E2|E2]; [|reflexivity].
        subst k'. apply d_get_none_iff. exact Ha.
      + rewrite IH by exact Hr.
        destruct (s_eqb_spec a k') as [E1|E1]; [|reflexivity].
        destruct (s_eqb_spec k k') as [E2|E2]; [|reflexivity]. exfalso. congruence.
  Qed.
End DictLemmas.

(* ------------------------------------------------------------------ *)
(* dmap_res keeps the keys                                             *)

Lemma dmap_res_keys : forall {T} (f : str -> T -> res T) (d d' : list (str * T)),
  dmap_res f d = OK d' -> map fst d' = map fst d.
Proof.
  intros T f. induction d as [|[k v] r IH]; intros d' H; simpl in H.
  - inversion H. reflexivity.
  - destruct (f k v) as [v'|e]; simpl in H; [|discriminate].
    destruct (dmap_res f r) as [r'|e] eqn:E; simpl in H; [|discriminate].
    inversion H; subst. simpl. f_equal. apply IH. reflexivity.
Qed.

(* ------------------------------------------------------------------ *)
(* parse_nuclide never raises NotImplementedError                      *)

Definition nn {A} (r : res A) : Prop := r <> Raise NotImplementedError.

Lemma nn_bind : forall {A B} (m : res A) (f : A -> res B),
  nn m -> (forall a, nn (f a)) -> nn (bind m f).
Proof.
  intros A B m f Hm Hf. destruct m as [a|e]; simpl; [apply Hf|].
  unfold nn in *. intro H. apply Hm. inversion H. reflexivity.
Qed.

Lemma nn_OK : forall {A} (a : A), nn (OK a).
Proof. intros A a. unfold nn. discriminate. Qed.

Lemma nn_l_get : forall {A} (l : list A) i, nn (l_get l i).
Proof.
  intros A l i. unfold nn, l_get.
  destruct (_ || _); [discriminate|]. destruct (nth_error _ _); discriminate.
Qed.

Lemma nn_s_get : forall s i, nn (s_get s i).
Proof. intros s i. unfold s_get. apply nn_bind; [apply nn_l_get|intro; apply nn_OK]. Qed.

Lemma nn_s_int : forall s, nn (s_int s).
Proof.
  intro s. unfold nn, s_int. destruct s as [|c r]; [discriminate|].
  destruct (existsb _ _); [discriminate|].
  destruct (s_digits_value _ _); [|discriminate].
  destruct (Nat.ltb _ _); discriminate.
Qed.

Lemma nn_s_split_on : forall sep s, nn (s_split_on sep s).
Proof. intros sep s. unfold nn, s_split_on. destruct sep; discriminate. Qed.

Lemma nn_int_truediv : forall a b, nn (int_truediv a b).
Proof.
  intros a b. unfold nn, int_truediv. destruct (Z.eqb b 0); [discriminate|].
  destruct (_ && _); discriminate.
Qed.

Lemma nn_d_get_zs : forall d k, nn (d_get_zs d k).
Proof.
  intros d k. unfold nn. induction d as [|[a v] r IH]; simpl; [discriminate|].
  destruct (Z.eqb a k); [discriminate|exact IH].
Qed.

Ltac nn_step :=
  first
    [ apply nn_OK
    | apply nn_l_get | apply nn_s_get | apply nn_s_int | apply nn_s_split_on
    | apply nn_int_truediv | apply nn_d_get_zs
    | apply nn_bind
    | match goal with |- nn (Raise _) => unfold nn; discriminate end
    | match goal with |- nn (if ?c then _ else _) => destruct c end
    | match goal with |- nn (match ?r with pair _ _ => _ end) => destruct r end
    | progress intros
    | progress cbv zeta ].

Lemma nn_build_nuclide_string : forall z a s, nn (build_nuclide_string z a s).
Proof. intros z a s. unfold build_nuclide_string. repeat nn_step. Qed.

Lemma nn_process_metastable : forall s, nn (process_metastable_element_str s).
Proof. intro s. unfold process_metastable_element_str. repeat nn_step. Qed.

Lemma nn_parse_nuclide_str : forall s, nn (parse_nuclide_str s).
Proof.
  intro s. unfold parse_nuclide_str.
  repeat first [apply nn_process_metastable | nn_step].
Qed.

Lemma nn_parse_id : forall z, nn (parse_id z).
Proof.
  intro z. unfold parse_id.
  repeat first [apply nn_build_nuclide_string | nn_step].
Qed.

Lemma parse_nuclide_not_NIE : forall k names ds,
  parse_nuclide k names ds <> Raise NotImplementedError.
Proof.
  intros k names ds. change (nn (parse_nuclide k names ds)).
  unfold parse_nuclide. destruct k as [z|s|];
    repeat first [apply nn_parse_id | apply nn_parse_nuclide_str | nn_step].
Qed.

(* ------------------------------------------------------------------ *)
(* the inventory model                                                  *)

Section InvLemmas.
  Context {T : Type} (ops : numops T).

  Lemma add_dictionaries_spec : forall (b a : @dict T),
    NoDup (map fst b) -> NoDup (map fst a) ->
    NoDup (map fst (add_dictionaries ops a b)) /\
    forall k, d_get (add_dictionaries ops a b) k =
      match d_get a k, d_get b k with
      | Some x, Some y => Some (nadd ops x y)
      | Some x, None => Some x
      | None, Some y => Some y
      | None, None => None
      end.
  Proof.
    unfold add_dictionaries.
    induction b as [|[kb vb] b IH]; intros a Hb Ha; simpl.
    - split; [exact Ha|]. intro k. destruct (d_get a k); reflexivity.
    - simpl in Hb. inversion Hb as [|kb' b' Hkb Hb']; subst.
      set (a1 := match d_get a kb with
                 | Some x => d_set a kb (nadd ops x vb)
                 | None => d_set a kb vb
                 end).
      assert (Ha1 : NoDup (map fst a1)).
      { unfold a1. destruct (d_get a kb); apply d_set_NoDup; exact Ha. }
      destruct (IH a1 Hb' Ha1) as [IH1 IH2]. split; [exact IH1|].
      intro k. rewrite IH2.
      assert (Hget : d_get a1 k =
                     if s_eqb kb k
                     then match d_get a kb with Some x => Some (nadd ops x vb) | None => Some vb end
                     else d_get a k).
      { unfold a1. destruct (d_get a kb); rewrite d_get_set; destruct (s_eqb kb k); reflexivity. }
      rewrite Hget. destruct (s_eqb_spec kb k) as [E|E].
      + subst k. apply d_get_none_iff in Hkb. rewrite Hkb.
        destruct (d_get a kb); reflexivity.
      + reflexivity.
  Qed.

  Lemma add_then_sort : forall (a b : @dict T),
    keys_sorted a = true -> NoDup (map fst b) ->
    keys_sorted (d_sort (add_dictionaries ops a b)) = true /\
    forall k, d_get (d_sort (add_dictionaries ops a b)) k =
      match d_get a k, d_get b k with
      | Some x, Some y => Some (nadd ops x y)
      | Some x, None => Some x
      | None, Some y => Some y
      | None, None => None
      end.
  Proof.
    intros a b Ha Hb.
    destruct (add_dictionaries_spec b a Hb (keys_sorted_NoDup _ Ha)) as [H1 H2].
    destruct (sort_spec _ H1) as [S1 S2]. split; [exact S1|].
    intro k. rewrite S2. apply H2.
  Qed.

  Theorem op_add_spec : forall a b : @dict T, keys_sorted a = true -> keys_sorted b = true ->
    keys_sorted (op_add ops a b) = true /\
    forall k, d_get (op_add ops a b) k =
      match d_get a k, d_get b k with
      | Some x, Some y => Some (nadd ops x y)
      | Some x, None => Some x
      | None, Some y => Some y
      | None, None => None
      end.
  Proof.
    intros a b Ha Hb. unfold op_add, rebuild.
    apply add_then_sort; [exact Ha|apply keys_sorted_NoDup; exact Hb].
  Qed.

  Theorem op_sub_spec : forall (nneg : T -> T) (a b : @dict T),
    keys_sorted a = true -> keys_sorted b = true ->
    keys_sorted (op_sub ops nneg a b) = true /\
    forall k, d_get (op_sub ops nneg a b) k =
      match d_get a k, d_get b k with
      | Some x, Some y => Some (nadd ops x (nneg y))
      | Some x, None => Some x
      | None, Some y => Some (nneg y)
      | None, None => None
      end.
  Proof.
    intros nneg a b Ha Hb. unfold op_sub, rebuild.
    set (b' := map (fun kv => (fst kv, nneg (snd kv))) b).
    assert (Hb' : NoDup (map fst b')).
    { unfold b'. rewrite keys_map. apply keys_sorted_NoDup. exact Hb. }
    destruct (add_then_sort a b' Ha Hb') as [H1 H2]. split; [exact H1|].
    intro k. rewrite H2. unfold b'. rewrite d_get_map.
    destruct (d_get a k); destruct (d_get b k); reflexivity.
  Qed.

  Lemma map_then_sort : forall (f : T -> T) (a : @dict T), keys_sorted a = true ->
    keys_sorted (d_sort (map (fun kv => (fst kv, f (snd kv))) a)) = true /\
    forall k, d_get (d_sort (map (fun kv => (fst kv, f (snd kv))) a)) k = option_map f (d_get a k).
  Proof.
    intros f a Ha.
    assert (Hnd : NoDup (map fst (map (fun kv : str * T => (fst kv, f (snd kv))) a))).
    { rewrite keys_map. apply keys_sorted_NoDup. exact Ha. }
    destruct (sort_spec _ Hnd) as [S1 S2]. split; [exact S1|].
    intro k. rewrite S2. apply d_get_map.
  Qed.

  Theorem op_mul_spec : forall (a : @dict T) c, keys_sorted a = true ->
    keys_sorted (op_mul ops a c) = true /\
    forall k, d_get (op_mul ops a c) k = option_map (fun x => nmul ops x c) (d_get a k).
  Proof.
    intros a c Ha. unfold op_mul, rebuild.
    exact (map_then_sort (fun x => nmul ops x c) a Ha).
  Qed.

  Theorem op_div_spec : forall (a : @dict T) c, keys_sorted a = true ->
    keys_sorted (op_div ops a c) = true /\
    forall k, d_get (op_div ops a c) k = option_map (fun x => ndiv ops x c) (d_get a k).
  Proof.
    intros a c Ha. unfold op_div, rebuild.
    exact (map_then_sort (fun x => ndiv ops x c) a Ha).
  Qed.
End InvLemmas.

(* ---------- remove *)
Section Remove.
  Context {T : Type} (names : list str).

  Theorem remove_spec : forall (a : @dict T) k, keys_sorted a = true ->
    match m_remove names a k with
    | OK a' => exists key, parse_nuclide k names [] = OK key /\ d_mem a key = true /\ keys_sorted a' = true /\
                 forall k', d_get a' k' = if s_eqb key k' then None else d_get a k'
    | Raise NotImplementedError => k = VOther
    | Raise e => k <> VOther /\ (parse_nuclide k names [] = Raise e \/
                                 exists key, parse_nuclide k names [] = OK key /\ d_mem a key = false /\ e = ValueError)
    end.
  Proof.
    intros a k Ha.
    assert (Hgen : forall k0 : pyval, k0 <> VOther ->
      match bind (parse_nuclide k0 names []) (fun key => if d_mem a key then OK (d_pop a key) else Raise ValueError) with
      | OK a' => exists key, parse_nuclide k0 names [] = OK key /\ d_mem a key = true /\ keys_sorted a' = true /\
                   forall k', d_get a' k' = if s_eqb key k' then None else d_get a k'
      | Raise NotImplementedError => k0 = VOther
      | Raise e => k0 <> VOther /\ (parse_nuclide k0 names [] = Raise e \/
                                   exists key, parse_nuclide k0 names [] = OK key /\ d_mem a key = false /\ e = ValueError)
      end).
    { intros k0 Hk0.
      pose proof (parse_nuclide_not_NIE k0 names []) as Hnie.
      destruct (parse_nuclide k0 names []) as [key|e] eqn:Ep; simpl.
      - destruct (d_mem a key) eqn:Em.
        + exists key. split; [reflexivity|]. split; [exact Em|]. split.
          * apply d_pop_sorted. exact Ha.
          * intro k'. apply d_get_pop. apply keys_sorted_NoDup. exact Ha.
        + split; [exact Hk0|]. right. exists key. repeat split. exact Em.
      - destruct e; try (split; [exact Hk0|left; reflexivity]).
        exfalso. apply Hnie. reflexivity. }
    destruct k as [z|s|].
    - exact (Hgen (VInt z) ltac:(discriminate)).
    - exact (Hgen (VStr s) ltac:(discriminate)).
    - reflexivity.
  Qed.

  Lemma m_remove_sorted : forall (a a' : @dict T) k,
    keys_sorted a = true -> m_remove names a k = OK a' -> keys_sorted a' = true.
  Proof.
    intros a a' k Ha H. pose proof (remove_spec a k Ha) as Hs. rewrite H in Hs.
    destruct Hs as [key [_ [_ [Hs _]]]]. exact Hs.
  Qed.

  Lemma pop_all_sorted : forall ks (a a' : @dict T),
    keys_sorted a = true -> pop_all a ks = OK a' -> keys_sorted a' = true.
  Proof.
    induction ks as [|k r IH]; intros a a' Ha H; simpl in H.
    - inversion H; subst. exact Ha.
    - destruct (d_mem a k); [|discriminate].
      eapply IH; [|exact H]. apply d_pop_sorted. exact Ha.
  Qed.

  Lemma m_remove_list_sorted : forall (a a' : @dict T) ks,
    keys_sorted a = true -> m_remove_list names a ks = OK a' -> keys_sorted a' = true.
  Proof.
    intros a a' ks Ha H. unfold m_remove_list in H.
    destruct (parse_all names ks) as [keys|e]; simpl in H; [|discriminate].
    eapply pop_all_sorted; eassumption.
  Qed.

  (* ---------- parse_keys *)
  Theorem construct_keeps_every_key : forall (raw : list (pyval * T)) acc d,
    parse_keys names raw acc = OK d -> NoDup (map fst acc) ->
    NoDup (map fst d) /\ length d = (length acc + length raw)%nat /\
    forall k v, In (k, v) raw -> exists key, parse_nuclide k names [] = OK key /\ d_get d key <> None.
  Proof.
    assert (Hgen : forall (raw : list (pyval * T)) acc d,
      parse_keys names raw acc = OK d -> NoDup (map fst acc) ->
      NoDup (map fst d) /\ length d = (length acc + length raw)%nat /\
      (forall key, d_get acc key <> None -> d_get d key <> None) /\
      forall k v, In (k, v) raw -> exists key, parse_nuclide k names [] = OK key /\ d_get d key <> None).
    { induction raw as [|[k v] r IH]; intros acc d H Hnd; simpl in H.
      - inversion H; subst. split; [exact Hnd|]. split; [simpl; lia|].
        split; [auto|]. intros k v [].
      - destruct (parse_nuclide k names []) as [key|e] eqn:Ep; simpl in H; [|discriminate].
        destruct (d_mem acc key) eqn:Em; [discriminate|].
        assert (Hnd' : NoDup (map fst (acc ++ [(key, v)]))).
        { rewrite map_app. simpl. apply NoDup_snoc; [exact Hnd|].
          apply d_mem_false_iff. exact Em. }
        destruct (IH _ _ H Hnd') as [I1 [I2 [I3 I4]]].
        split; [exact I1|]. split.
        { rewrite I2. rewrite app_length. simpl. lia. }
        split.
        { intros key' Hk. apply I3. rewrite d_get_app.
          destruct (d_get acc key'); [discriminate|contradiction]. }
        intros k' v' [Hin|Hin].
        + inversion Hin; subst. exists key. split; [exact Ep|].
          apply I3. rewrite d_get_app.
          destruct (d_get acc key); [discriminate|].
          simpl. rewrite s_eqb_refl. discriminate.
        + eapply I4. exact Hin. }
    intros raw acc d H Hnd. destruct (Hgen raw acc d H Hnd) as [H1 [H2 [_ H4]]].
    split; [exact H1|]. split; [exact H2|exact H4].
  Qed.
End Remove.

(* ---------- constructor, step, histories *)
Section Construct.
  Context {T : Type} (ops : numops T).
  Context (activity_units mass_units moles_units : list (str * T)).
  Context (avogadro : T) (names : list str) (decay_consts atomic_masses : list T).
  Variables (amount_ok : T -> bool) (normalise : T -> T).

  Notation construct := (construct ops activity_units mass_units moles_units avogadro names decay_consts atomic_masses amount_ok normalise).

  Theorem construct_duplicate_refused : forall k1 k2 (v1 v2 : T) key rest units,
    parse_nuclide k1 names [] = OK key -> parse_nuclide k2 names [] = OK key ->
    construct ((k1, v1) :: (k2, v2) :: rest) units = Raise ValueError.
  Proof.
    intros k1 k2 v1 v2 key rest units H1 H2.
    unfold Inventory.construct. simpl map. simpl parse_keys.
    rewrite H1. simpl bind. rewrite H2. simpl bind.
    unfold d_mem. simpl. rewrite s_eqb_refl. reflexivity.
  Qed.

  Lemma convert_to_number_keys : forall d units ds c,
    convert_to_number ops activity_units mass_units moles_units avogadro names decay_consts atomic_masses
                      d units ds = OK c ->
    map fst c = map fst d.
  Proof.
    intros d units ds c H. unfold convert_to_number in H. cbv zeta in H.
    repeat match type of H with
           | (if ?b then _ else _) = _ => destruct b
           end;
      try discriminate;
      try (inversion H; reflexivity);
      match type of H with
      | bind (dmap_res ?f d) _ = _ =>
          destruct (dmap_res f d) as [r|e] eqn:E; simpl in H; [|discriminate];
          inversion H; subst; eapply dmap_res_keys; exact E
      end.
  Qed.

  Theorem construct_sorted : forall raw units c, construct raw units = OK c -> keys_sorted c = true.
  Proof.
    intros raw units c H. unfold Inventory.construct in H.
    destruct (parse_keys names _ []) as [parsed|e] eqn:Ep; simpl in H; [|discriminate].
    destruct (check_values amount_ok parsed) as [u|e]; simpl in H; [|discriminate].
    apply convert_to_number_keys in H.
    rewrite (keys_sorted_ext _ _ H).
    destruct (construct_keeps_every_key names _ _ _ Ep (NoDup_nil _)) as [Hnd _].
    apply sort_spec. exact Hnd.
  Qed.

  Variable nneg : T -> T.
  Notation step := (step ops activity_units mass_units moles_units avogadro names decay_consts atomic_masses amount_ok normalise nneg).
  Notation run := (run ops activity_units mass_units moles_units avogadro names decay_consts atomic_masses amount_ok normalise nneg).

  Theorem step_atomic : forall a o a' e, step a o = (a', Some e) -> a' = a.
  Proof.
    intros a o a' e H. unfold Inventory.step in H.
    destruct o; try discriminate;
      match type of H with
      | match ?r with OK _ => _ | Raise _ => _ end = _ => destruct r; inversion H; reflexivity
      end.
  Qed.

  Lemma step_sorted : forall a (o : @op T), keys_sorted a = true ->
    match o with OPlus b | OMinus b => keys_sorted b = true | _ => True end ->
    keys_sorted (fst (step a o)) = true.
  Proof.
    intros a o Ha Ho. unfold Inventory.step. destruct o as [raw u|raw u|b|b|c|c|k|ks].
    - unfold m_add. destruct (Inventory.construct _ _ _ _ _ _ _ _ _ _ raw u) as [other|e] eqn:Ec; simpl.
      + apply op_add_spec; [exact Ha|]. eapply construct_sorted. exact Ec.
      + exact Ha.
    - unfold m_subtract. destruct (Inventory.construct _ _ _ _ _ _ _ _ _ _ raw u) as [other|e] eqn:Ec; simpl.
      + apply op_sub_spec; [exact Ha|]. eapply construct_sorted. exact Ec.
      + exact Ha.
    - simpl. apply op_add_spec; assumption.
    - simpl. apply op_sub_spec; assumption.
    - simpl. apply op_mul_spec; assumption.
    - simpl. apply op_div_spec; assumption.
    - destruct (m_remove names a k) as [a'|e] eqn:Er; simpl.
      + eapply m_remove_sorted; eassumption.
      + exact Ha.
    - destruct (m_remove_list names a ks) as [a'|e] eqn:Er; simpl.
      + eapply m_remove_list_sorted; eassumption.
      + exact Ha.
  Qed.

  Theorem histories_sorted : forall (os : list (@op T)) a, keys_sorted a = true ->
    Forall (fun o => match o with OPlus b | OMinus b => keys_sorted b = true | _ => True end) os ->
    keys_sorted (run a os) = true.
  Proof.
    unfold Inventory.run.
    induction os as [|o os IH]; intros a Ha Hos; simpl.
    - exact Ha.
    - inversion Hos as [|o' os' Ho Hos']; subst.
      apply IH; [|exact Hos']. apply step_sorted; assumption.
  Qed.
End Construct.

Print Assumptions sort_spec.
Print Assumptions op_add_spec.
Print Assumptions op_sub_spec.
Print Assumptions op_mul_spec.
Print Assumptions op_div_spec.
Print Assumptions remove_spec.
Print Assumptions construct_keeps_every_key.
Print Assumptions construct_duplicate_refused.
Print Assumptions step_atomic.
Print Assumptions construct_sorted.
Print Assumptions histories_sorted.
