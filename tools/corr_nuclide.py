"""Correspondence machinery for the nuclide-name functions (C09, C10):
extracted Coq model (coq/Extract/driver) vs the real implementation (tools/impl_nuclide.py)."""
import os
import random
import subprocess
import concurrent.futures as cf

import common as C

EXTRACT = os.path.join(C.COQ, "Extract")
ELEMENTS = ("H He Li Be B C N O F Ne Na Mg Al Si P S Cl Ar K Ca Sc Ti V Cr Mn Fe Co Ni Cu Zn Ga Ge As Se Br Kr "
            "Rb Sr Y Zr Nb Mo Tc Ru Rh Pd Ag Cd In Sn Sb Te I Xe Cs Ba La Ce Pr Nd Pm Sm Eu Gd Tb Dy Ho Er Tm Yb "
            "Lu Hf Ta W Re Os Ir Pt Au Hg Tl Pb Bi Po At Rn Fr Ra Ac Th Pa U Np Pu Am Cm Bk Cf Es Fm Md No Lr Rf "
            "Db Sg Bh Hs Mt Ds Rg Cn Nh Fl Mc Lv Ts Og").split()
STATES = ["", "m", "n", "p", "q", "r", "x"]
assert len(ELEMENTS) == 118


def build_driver():
    """(re)build the extracted driver if the generated model changed. -> (ok, message)"""
    with C.Lock("extract"):
        vo = os.path.join(C.COQ, "Gen", "UtilsGen.vo")
        drv = os.path.join(EXTRACT, "driver")
        if not os.path.exists(vo):
            return False, "Gen/UtilsGen.vo missing (generated model does not compile)"
        src_m = max(os.path.getmtime(vo), os.path.getmtime(os.path.join(EXTRACT, "driver.ml")),
                    os.path.getmtime(os.path.join(EXTRACT, "extract.v")),
                    os.path.getmtime(os.path.join(C.COQ, "Lib", "Py.vo")))
        if os.path.exists(drv) and os.path.getmtime(drv) >= src_m:
            return True, "up to date"
        rc, out = C.sh("coqc -Q .. RD extract.v", cwd=EXTRACT, timeout=600)
        if rc != 0:
            return False, "extraction failed: " + out[-1500:]
        rc, out = C.sh("ocamlfind ocamlopt -package str -w -a model.mli model.ml driver.ml -o driver",
                       cwd=EXTRACT, timeout=600)
        if rc != 0:
            return False, "ocaml build failed: " + out[-1500:]
        return True, "rebuilt"


def enc(s):
    return " ".join(str(ord(c)) for c in s)


def dec(words):
    return "".join(chr(int(w)) for w in words.split() if w)


def _run(cmd, text, env=None):
    p = subprocess.run(cmd, input=text, stdout=subprocess.PIPE, stderr=subprocess.PIPE, text=True, env=env,
                       cwd="/tmp")
    if p.returncode != 0:
        raise RuntimeError(f"{cmd} failed: {p.stderr[-1500:]}")
    return p.stdout.split("\n")[:-1]


def run_both(lines, shards=None):
    """-> (model_out, impl_out), lists aligned with lines"""
    if not lines:
        return [], []
    shards = shards or min(C.NPROC, max(1, len(lines) // 20000))
    chunks = [lines[i::shards] for i in range(shards)]
    texts = ["\n".join(ch) + "\n" for ch in chunks]
    drv = os.path.join(EXTRACT, "driver")
    impl_cmd = [C.PY, os.path.join(C.TOOLS, "impl_nuclide.py")]
    with cf.ThreadPoolExecutor(max_workers=2 * shards) as ex:
        fm = [ex.submit(_run, [drv], t) for t in texts]
        fi = [ex.submit(_run, impl_cmd, t, C.IMPL_ENV) for t in texts]
        mo = [f.result() for f in fm]
        io = [f.result() for f in fi]
    model = [None] * len(lines)
    impl = [None] * len(lines)
    for k in range(shards):
        if len(mo[k]) != len(chunks[k]) or len(io[k]) != len(chunks[k]):
            raise RuntimeError(f"driver output length mismatch in shard {k}: {len(mo[k])}/{len(io[k])}/{len(chunks[k])}")
        model[k::shards] = mo[k]
        impl[k::shards] = io[k]
    return model, impl


# ---------------------------------------------------------------- generators
def spell_forms(el, a, st):
    A = str(a)
    return [f"{el}-{A}{st}", f"{el}{A}{st}", f"{A}{st}{el}", f"{A}{st}-{el}",
            f"{el.lower()}{A}{st.upper()}", f"{el.upper()}-{A}{st}", f" {el} - {A}\t{st} "]


def exhaustive_spellings():
    """the 118 x 300 x 7 x 7 strings of the C09 quantifier with their expected canonical name"""
    for el in ELEMENTS:
        for a in range(1, 301):
            for st in STATES:
                canon = f"{el}-{a}{st}"
                for f in spell_forms(el, a, st):
                    yield f, canon


WS = [" ", "\t", "\n", " ", " ", "　", "\x1c", "\r"]


def random_variants(rng, n):
    out = []
    for _ in range(n):
        el, a, st = rng.choice(ELEMENTS), rng.randint(1, 300), rng.choice(STATES)
        form = rng.randrange(4)
        A = str(a)
        if form < 2:
            e2 = "".join(c.upper() if rng.random() < .5 else c.lower() for c in el)
            s2 = st.upper() if rng.random() < .3 else st
            s = e2 + ("-" if form == 0 else "") + A + s2
        else:
            s = A + st + ("-" if form == 3 else "") + el
        chars = list(s)
        for _ in range(rng.randrange(4)):
            chars.insert(rng.randrange(len(chars) + 1), rng.choice(WS))
        out.append(("".join(chars), f"{el}-{a}{st}"))
    return out


def expected_id(el, a, st):
    return (ELEMENTS.index(el) + 1) * 10000000 + a * 10000 + STATES.index(st)


ALPHABET = (list("HhEeXxUuIiNnMmOoPpQqRrBbKkSsFfLl") + list("0123459") + ["-", " ", "\t", " ", "_", "+", ".",
            "ı", "ſ", "K", "ﬂ", "ß", "İ", "١", "²", "Ⅰ", "é",
            "Σ", "中", "\U0001d7d8", "٠"])


def short_strings(maxlen):
    import itertools
    for L in range(0, maxlen + 1):
        for t in itertools.product(ALPHABET, repeat=L):
            yield "".join(t)


def random_malformed(rng, n, maxlen=8):
    out = []
    for _ in range(n):
        r = rng.random()
        if r < 0.5:
            L = rng.randint(1, maxlen)
            out.append("".join(rng.choice(ALPHABET) for _ in range(L)))
        else:   # mutate a valid name
            el, a, st = rng.choice(ELEMENTS), rng.choice([0, 1, 9, 99, 300, 301, 1000, rng.randint(1, 400)]), rng.choice(STATES + ["o", "mm", "M"])
            s = list(rng.choice(spell_forms(el, a, st)))
            for _ in range(rng.randint(1, 2)):
                op = rng.randrange(3)
                pos = rng.randrange(len(s) + 1)
                if op == 0:
                    s.insert(pos, rng.choice(ALPHABET))
                elif op == 1 and s:
                    s.pop(min(pos, len(s) - 1))
                elif s:
                    s[min(pos, len(s) - 1)] = rng.choice(ALPHABET)
            out.append("".join(s))
    return out


def literal_ok(s, r):
    """independent statement of 'the accepted string literally contains element, mass digits, state
    (up to ASCII case) and r is El-A[st]'"""
    u = "".join(s.split()).replace("-", "", 1)
    if not (u.isascii() and u.isalnum()):
        return False
    try:
        el, rest = r.split("-")
    except ValueError:
        return False
    A = rest.rstrip("mnpqrx")
    st = rest[len(A):]
    if el not in ELEMENTS or st not in STATES or not (A.isascii() and A.isdigit()) or int(A) > 300:
        return False
    return u.lower() in ((el + A + st).lower(), (A + st + el).lower())
