(* C03 (second part, d): stored data vs exact data for the integrated exponential of cumulative_decays.
   - ecum_perturbation: a relative perturbation of a decay constant moves (1 - exp(-lambda t))/lambda by at most
     c / ((1-c)^2 lambda);
   - cum_data_error: the weighted constants B_cum / K_cum of Model/CumData.v bound the distance between the
     cumulative decays computed from the stored (float) matrices with perturbed decay constants and the exact ones. *)
From Coq Require Import Reals Lra Lia List Bool ZArith NArith QArith Qreals Arith Psatz.
From Bignums Require Import BigQ.
From RD Require Import Base Model.DecayR Lib.Sparse Lib.CertQ Model.Dataset Model.FloatData Model.CumData.
From RD Require Import Proofs.DatasetCert Proofs.FloatDataP.
Import ListNotations.
Local Open Scope R_scope.

(* ---------- (1) perturbation of the integrated exponential *)
Lemma exp_neg_le_1 : forall x, 0 <= x -> exp (- x) <= 1.
Proof. intros x Hx. pose proof (one_minus_exp x Hx). lra. Qed.

Lemma exp_neg_mono : forall x y, x <= y -> exp (- y) <= exp (- x).
Proof.
  intros x y [H|H].
  - left. apply exp_increasing. lra.
  - subst y. right. reflexivity.
Qed.

(* two numbers of opposite sign: the sum is no larger than the larger one *)
Lemma Rabs_opp_signs : forall a b m, a * b <= 0 -> Rabs a <= m -> Rabs b <= m -> Rabs (a + b) <= m.
Proof.
  intros a b m Hab Ha Hb.
  destruct (Rle_lt_dec 0 a) as [Ha0|Ha0]; destruct (Rle_lt_dec 0 b) as [Hb0|Hb0].
  - (* both >= 0: one of them is 0 *)
    destruct (Req_dec a 0) as [E|E].
    + subst a. rewrite Rplus_0_l. exact Hb.
    + assert (Hb1 : b = 0).
      { destruct (Req_dec b 0) as [Eb|Eb]; [exact Eb|]. exfalso.
        assert (0 < a * b) by (apply Rmult_lt_0_compat; lra). lra. }
      subst b. rewrite Rplus_0_r. exact Ha.
  - rewrite (Rabs_right a) in Ha by lra. rewrite (Rabs_left b) in Hb by lra.
    unfold Rabs. destruct (Rcase_abs (a + b)); lra.
  - rewrite (Rabs_left a) in Ha by lra. rewrite (Rabs_right b) in Hb by lra.
    unfold Rabs. destruct (Rcase_abs (a + b)); lra.
  - exfalso. assert (0 < a * b).
    { replace (a * b) with ((- a) * (- b)) by ring. apply Rmult_lt_0_compat; lra. }
    lra.
Qed.

Lemma ecum_num_bound : forall a delta c, 0 <= a -> Rabs delta <= c -> c < 1 ->
  Rabs (- delta * (1 - exp (- a)) + (exp (- a) - exp (- (a * (1 + delta))))) <= c / (1 - c).
Proof.
  intros a delta c Ha Hd Hc.
  assert (Hc0 : 0 <= c) by (eapply Rle_trans; [apply Rabs_pos|exact Hd]).
  pose proof (one_minus_exp a Ha) as H1.
  pose proof (exp_neg_le_1 a Ha) as H2.
  assert (Hcc : c <= c / (1 - c)).
  { apply Rmult_le_reg_r with (1 - c); [lra|]. unfold Rdiv. rewrite Rmult_assoc, Rinv_l by lra. nra. }
  assert (He : c / (exp 1 * (1 - c)) <= c / (1 - c)).
  { unfold Rdiv. apply Rmult_le_compat_l; [exact Hc0|].
    apply Rinv_le_contravar; [lra|]. pose proof (exp_ineq1_le 1). nra. }
  apply Rabs_opp_signs.
  - (* opposite signs *)
    destruct (Rle_lt_dec 0 delta) as [Hp|Hn].
    + assert (exp (- (a * (1 + delta))) <= exp (- a)) by (apply exp_neg_mono; nra).
      assert (0 <= delta * (1 - exp (- a))) by (apply Rmult_le_pos; lra).
      assert (0 <= (delta * (1 - exp (- a))) * (exp (- a) - exp (- (a * (1 + delta))))) by (apply Rmult_le_pos; lra).
      lra.
    + assert (exp (- a) <= exp (- (a * (1 + delta)))) by (apply exp_neg_mono; nra).
      assert (0 <= - delta * (1 - exp (- a))) by (apply Rmult_le_pos; lra).
      assert (0 <= (- delta * (1 - exp (- a))) * (exp (- (a * (1 + delta))) - exp (- a))) by (apply Rmult_le_pos; lra).
      lra.
  - rewrite Rabs_mult, Rabs_Ropp. rewrite (Rabs_right (1 - exp (- a))) by lra.
    apply Rle_trans with (c * 1); [|lra].
    apply Rmult_le_compat; [apply Rabs_pos|lra|exact Hd|pose proof (exp_pos (- a)); lra].
  - rewrite Rabs_minus_sym. eapply Rle_trans; [apply (lambda_perturbation a delta c Ha Hd Hc)|exact He].
Qed.

Lemma ecum_perturbation : forall lambda delta c t, 0 < lambda -> Rabs delta <= c -> c < 1 -> 0 <= t ->
  Rabs ((1 - exp (- (lambda * (1 + delta)) * t)) / (lambda * (1 + delta)) - (1 - exp (- lambda * t)) / lambda)
  <= c / ((1 - c) ^ 2 * lambda).
Proof.
  intros lambda delta c t Hl Hd Hc Ht.
  assert (Hc0 : 0 <= c) by (eapply Rle_trans; [apply Rabs_pos|exact Hd]).
  assert (Hdd : - c <= delta <= c) by (split; [pose proof (Rle_abs (- delta)); rewrite Rabs_Ropp in *; lra|pose proof (Rle_abs delta); lra]).
  set (s := 1 + delta). assert (Hs : 1 - c <= s) by (unfold s; lra).
  assert (Hs0 : 0 < s) by lra.
  set (a := lambda * t). assert (Ha : 0 <= a) by (unfold a; apply Rmult_le_pos; lra).
  pose proof (ecum_num_bound a delta c Ha Hd Hc) as HN.
  set (X := - delta * (1 - exp (- a)) + (exp (- a) - exp (- (a * (1 + delta))))) in HN.
  replace ((1 - exp (- (lambda * s) * t)) / (lambda * s) - (1 - exp (- lambda * t)) / lambda)
    with (X * / s * / lambda).
  2:{ unfold X. fold s. replace (- (lambda * s) * t) with (- (a * s)) by (unfold a; ring).
      replace (- lambda * t) with (- a) by (unfold a; ring).
      unfold s. field. split; lra. }
  rewrite !Rabs_mult. rewrite (Rabs_right (/ s)) by (left; apply Rinv_0_lt_compat; exact Hs0).
  rewrite (Rabs_right (/ lambda)) by (left; apply Rinv_0_lt_compat; exact Hl).
  assert (Hi : / s <= / (1 - c)) by (apply Rinv_le_contravar; lra).
  assert (His : 0 < / s) by (apply Rinv_0_lt_compat; exact Hs0).
  assert (Hil : 0 < / lambda) by (apply Rinv_0_lt_compat; exact Hl).
  replace (c / ((1 - c) ^ 2 * lambda)) with (c / (1 - c) * / (1 - c) * / lambda) by (field; split; lra).
  apply Rmult_le_compat_r; [lra|].
  apply Rmult_le_compat; [apply Rabs_pos|lra|exact HN|exact Hi].
Qed.

(* ---------- (2) the weights mu_i / mu_k *)
Lemma bqv_div : forall x y, bqv y <> 0 -> bqv (BigQ.div x y) = bqv x / bqv y.
Proof.
  intros x y Hy. unfold bqv in *. unfold Rdiv.
  assert (Hq : ~ (BigQ.to_Q y == 0)%Q).
  { intro E. apply Hy. rewrite (Qeq_eqR _ _ E). apply RMicromega.Q2R_0. }
  rewrite <- Q2R_inv by exact Hq. rewrite <- Q2R_mult. apply Qeq_eqR.
  rewrite BigQ.spec_div. reflexivity.
Qed.

Definition Wr (d : dataset) (i k : nat) : R := bqv (wq (muq d) i k).

Lemma Wr_stable : forall d i k, stableb d k = true -> Wr d i k = 0.
Proof.
  intros d i k H. unfold Wr, wq, mu_n. unfold stableb, mu_at in H. rewrite H. apply bqv_0.
Qed.

Lemma Wr_radio : forall d i k, stableb d k = false -> mur d k <> 0 /\ Wr d i k = mur d i / mur d k.
Proof.
  intros d i k H. unfold Wr, wq, mu_n. unfold stableb, mu_at in H. rewrite H.
  pose proof (bq_is_zero_false _ H) as Hk. split; [exact Hk|].
  rewrite bqv_div by exact Hk. reflexivity.
Qed.

Lemma Wr_nonneg : forall d, wf_core d = true -> forall i k, (i < nn d)%nat -> (k < nn d)%nat -> 0 <= Wr d i k.
Proof.
  intros d Hwf i k Hi Hk. pose proof (wf_core_cert d Hwf) as Hcert.
  destruct (stableb d k) eqn:Es.
  - rewrite Wr_stable by exact Es. lra.
  - destruct (Wr_radio d i k Es) as [Hne E]. rewrite E.
    pose proof (c_mu_nonneg _ _ _ _ _ _ _ Hcert k Hk) as H1.
    pose proof (c_mu_nonneg _ _ _ _ _ _ _ Hcert i Hi) as H2.
    apply Rmult_le_pos; [exact H2|]. left. apply Rinv_0_lt_compat. lra.
Qed.

(* ---------- the scaled matrices *)
Lemma cols_scale_row_w : forall mus i r, cols bq (scale_row_w mus i r) = cols bq r.
Proof. intros mus i r. unfold cols, scale_row_w. rewrite map_map. reflexivity. Qed.

Lemma bget_scale_row_w : forall mus i r k,
  bqv (bget (scale_row_w mus i r) k) = bqv (wq mus i (N.to_nat k)) * bqv (bget r k).
Proof.
  intros mus i. induction r as [|[k0 x] r IH]; intro k.
  - cbn [scale_row_w map]. rewrite !bget_nil, bqv_0. ring.
  - change (scale_row_w mus i ((k0, x) :: r))
      with ((k0, BigQ.mul (wq mus i (N.to_nat k0)) x) :: scale_row_w mus i r).
    rewrite !bget_cons. destruct (N.eqb_spec k0 k) as [E|E].
    + subst k0. rewrite !bqv_add, bqv_mul, IH. ring.
    + apply IH.
Qed.

Lemma mrow_scale_rows : forall mus m s i,
  mrow bq (scale_rows mus s m) i = scale_row_w mus (s + i) (mrow bq m i).
Proof.
  intros mus. induction m as [|r m IH]; intros s i.
  - cbn [scale_rows]. rewrite !mrow_nil. reflexivity.
  - cbn [scale_rows]. destruct i as [|i].
    + unfold mrow. cbn [nth]. rewrite Nat.add_0_r. reflexivity.
    + unfold mrow in *. cbn [nth]. rewrite IH. replace (S s + i)%nat with (s + S i)%nat by lia. reflexivity.
Qed.

Lemma length_scale_rows : forall mus m s, length (scale_rows mus s m) = length m.
Proof. intros mus. induction m as [|r m IH]; intro s; cbn [scale_rows length]; [reflexivity|]. rewrite IH. reflexivity. Qed.

Lemma bent_scale_rows : forall mus m i k,
  bent (scale_rows mus 0 m) i k = bqv (wq mus i k) * bent m i k.
Proof.
  intros mus m i k. unfold ent. rewrite mrow_scale_rows, Nat.add_0_l, bget_scale_row_w, Nat2N.id. reflexivity.
Qed.

Lemma Cfw_ent : forall d i k, bent (Cfw d) i k = Wr d i k * Cfr d i k.
Proof. intros d i k. unfold Cfw. cbv zeta. apply bent_scale_rows. Qed.
Lemma Cw_ent : forall d i k, bent (Cw d) i k = Wr d i k * Cr d i k.
Proof. intros d i k. unfold Cw. cbv zeta. apply bent_scale_rows. Qed.

Lemma scaled_cols_range : forall mus n (m : mat bq) i k, mat_in_range bq n m = true ->
  In k (cols bq (mrow bq (scale_rows mus 0 m) i)) -> (N.to_nat k < N.to_nat n)%nat.
Proof.
  intros mus n m i k H Hin. rewrite mrow_scale_rows, cols_scale_row_w in Hin.
  apply (row_cols_range n m i k H Hin).
Qed.

(* ---------- soundness of the two maxima for arbitrary matrices *)
Lemma B_gen_sound : forall n (A B Ai Bi : mat bq) i j,
  length A = n -> length B = n -> (i < n)%nat ->
  (forall k, In k (cols bq (mrow bq A i)) -> (N.to_nat k < n)%nat) ->
  (forall k, In k (cols bq (mrow bq B i)) -> (N.to_nat k < n)%nat) ->
  sumn n (fun k => Rabs (bent A i k * bent Ai k j - bent B i k * bent Bi k j))
  <= bqv (fold_left bq_max (map (fun ab => row_max Ai Bi (fst ab) (snd ab)) (combine A B)) BigQ.zero).
Proof.
  intros n A B Ai Bi i j LA LB Hi HA HB. unfold ent.
  rewrite <- (term_list_sound Ai Bi (mrow bq A i) (mrow bq B i) n (N.of_nat j) HA HB).
  eapply Rle_trans; [apply row_max_ge|].
  apply fold_max_ge_in. apply in_map_iff.
  exists (mrow bq A i, mrow bq B i). split; [reflexivity|].
  unfold mrow. rewrite <- (combine_nth A B i [] []) by congruence.
  apply nth_In. rewrite combine_length. lia.
Qed.

Lemma K_gen_sound : forall n (A Ai : mat bq) i j,
  length A = n -> (i < n)%nat ->
  (forall k, In k (cols bq (mrow bq A i)) -> (N.to_nat k < n)%nat) ->
  sumn n (fun k => Rabs (bent A i k * bent Ai k j))
  <= bqv (fold_left bq_max (map (fun a => row_max Ai zero_mat a []) A) BigQ.zero).
Proof.
  intros n A Ai i j LA Hi HA. unfold ent.
  apply Rle_trans with (bqv (bget (term_list Ai zero_mat (mrow bq A i) []) (N.of_nat j))).
  - rewrite (term_list_sound Ai zero_mat (mrow bq A i) [] n (N.of_nat j)).
    + right. apply sumn_ext. intros k Hk. unfold zero_mat. rewrite mrow_nil, !bget_nil, bqv_0.
      f_equal. ring.
    + exact HA.
    + intros k [].
  - eapply Rle_trans; [apply row_max_ge|].
    apply fold_max_ge_in. apply in_map_iff.
    exists (mrow bq A i). split; [reflexivity|].
    unfold mrow. apply nth_In. lia.
Qed.

Lemma B_cum_sound : forall d, mat_in_range bq (nN d) (Cfq d) = true -> mat_in_range bq (nN d) (Cq d) = true ->
  forall i j, (i < nn d)%nat ->
  sumn (nn d) (fun k => Rabs (Wr d i k * Cfr d i k * Cifr d k j - Wr d i k * Cr d i k * Cir d k j)) <= bqv (B_cum d).
Proof.
  intros d HA HB i j Hi.
  pose proof (mat_in_range_len bq _ _ HA) as LA. pose proof (mat_in_range_len bq _ _ HB) as LB.
  rewrite nN_nn in LA, LB.
  rewrite (sumn_ext _ _ (fun k => Rabs (bent (Cfw d) i k * bent (Cifq d) k j - bent (Cw d) i k * bent (Ciq d) k j))).
  2:{ intros k Hk. rewrite Cfw_ent, Cw_ent. reflexivity. }
  unfold B_cum. cbv zeta. apply B_gen_sound.
  - unfold Cfw. cbv zeta. rewrite length_scale_rows. exact LA.
  - unfold Cw. cbv zeta. rewrite length_scale_rows. exact LB.
  - exact Hi.
  - intros k Hk. rewrite <- (nN_nn d). unfold Cfw in Hk. cbv zeta in Hk. apply (scaled_cols_range _ _ _ _ _ HA Hk).
  - intros k Hk. rewrite <- (nN_nn d). unfold Cw in Hk. cbv zeta in Hk. apply (scaled_cols_range _ _ _ _ _ HB Hk).
Qed.

Lemma K_cum_sound : forall d, mat_in_range bq (nN d) (Cfq d) = true ->
  forall i j, (i < nn d)%nat ->
  sumn (nn d) (fun k => Rabs (Wr d i k * Cfr d i k * Cifr d k j)) <= bqv (K_cum d).
Proof.
  intros d HA i j Hi.
  pose proof (mat_in_range_len bq _ _ HA) as LA. rewrite nN_nn in LA.
  rewrite (sumn_ext _ _ (fun k => Rabs (bent (Cfw d) i k * bent (Cifq d) k j))).
  2:{ intros k Hk. rewrite Cfw_ent. reflexivity. }
  unfold K_cum. cbv zeta. apply K_gen_sound.
  - unfold Cfw. cbv zeta. rewrite length_scale_rows. exact LA.
  - exact Hi.
  - intros k Hk. rewrite <- (nN_nn d). unfold Cfw in Hk. cbv zeta in Hk. apply (scaled_cols_range _ _ _ _ _ HA Hk).
Qed.

Lemma chk_cum_parts : forall d Bc Kc Gc, chk_cum d Bc Kc Gc = true ->
  bqv (B_cum d) <= bqv Bc /\ bqv (K_cum d) <= bqv Kc.
Proof.
  intros d Bc Kc Gc H. unfold chk_cum in H.
  apply andb_prop in H. destruct H as [H _].
  apply andb_prop in H. destruct H as [HB HK].
  split; apply bq_leb_spec; assumption.
Qed.

(* ---------- the diagonal factors *)
Lemma ln2_pos : 0 < ln 2.
Proof. rewrite <- ln_1. apply ln_increasing; lra. Qed.

Section Diag.
  Variable d : dataset.
  Hypothesis Hwf : wf_core d = true.
  Variables (c t : R) (delta : nat -> R).
  Hypothesis Hc : 0 <= c < 1.
  Hypothesis Ht : 0 <= t.
  Hypothesis Hd : forall k, Rabs (delta k) <= c.

  Let lm := lam (mur d).
  Let E (k : nat) := EcumP (stableb d k) (lm k * (1 + delta k)) t.
  Let E0 (k : nat) := Ecum (mur d) (stableb d) t k.

  Lemma lam_pos_radio : forall k, (k < nn d)%nat -> stableb d k = false -> 0 < lm k.
  Proof.
    intros k Hk Es. pose proof (wf_core_cert d Hwf) as Hcert.
    destruct (Wr_radio d k k Es) as [Hne _].
    pose proof (c_mu_nonneg _ _ _ _ _ _ _ Hcert k Hk) as H1.
    unfold lm, lam. apply Rmult_lt_0_compat; [apply ln2_pos|lra].
  Qed.

  (* lam_i x = (lam_k x) * W_ik whenever x vanishes for stable k *)
  Lemma weight_move : forall i k x, (k < nn d)%nat -> (stableb d k = true -> x = 0) ->
    lm i * x = (lm k * x) * Wr d i k.
  Proof.
    intros i k x Hk Hx. destruct (stableb d k) eqn:Es.
    - rewrite (Hx eq_refl). ring.
    - destruct (Wr_radio d i k Es) as [Hne E']. rewrite E'.
      unfold lm, lam. field. exact Hne.
  Qed.

  Lemma E0_stable : forall k, stableb d k = true -> E0 k = 0.
  Proof. intros k Es. unfold E0, Ecum. rewrite Es. reflexivity. Qed.
  Lemma E_stable : forall k, stableb d k = true -> E k = 0.
  Proof. intros k Es. unfold E, EcumP. rewrite Es. reflexivity. Qed.

  Lemma e2_range : forall k, (k < nn d)%nat -> 0 <= lm k * E0 k <= 1.
  Proof.
    intros k Hk. destruct (stableb d k) eqn:Es.
    - rewrite E0_stable by exact Es. lra.
    - pose proof (lam_pos_radio k Hk Es) as Hl. unfold E0, Ecum. rewrite Es. fold lm.
      replace (lm k * ((1 - exp (- lm k * t)) / lm k)) with (1 - exp (- lm k * t)) by (field; lra).
      replace (- lm k * t) with (- (lm k * t)) by ring.
      assert (Ha : 0 <= lm k * t) by (apply Rmult_le_pos; lra).
      pose proof (one_minus_exp _ Ha) as H1. pose proof (exp_pos (- (lm k * t))). lra.
  Qed.

  Lemma e1_bound : forall k, (k < nn d)%nat -> Rabs (lm k * (E k - E0 k)) <= c / (1 - c) ^ 2.
  Proof.
    intros k Hk.
    assert (Hpos : 0 <= c / (1 - c) ^ 2).
    { apply Rmult_le_pos; [lra|]. left. apply Rinv_0_lt_compat. apply pow_lt. lra. }
    destruct (stableb d k) eqn:Es.
    - rewrite E_stable, E0_stable by exact Es. rewrite Rminus_0_r, Rmult_0_r, Rabs_R0. exact Hpos.
    - pose proof (lam_pos_radio k Hk Es) as Hl. unfold E, E0, EcumP, Ecum. rewrite Es. fold lm.
      rewrite Rabs_mult, (Rabs_right (lm k)) by lra.
      pose proof (ecum_perturbation (lm k) (delta k) c t Hl (Hd k) (proj2 Hc) Ht) as HP.
      apply Rle_trans with (lm k * (c / ((1 - c) ^ 2 * lm k))).
      + apply Rmult_le_compat_l; [lra|exact HP].
      + right. field. split; lra.
  Qed.
End Diag.

(* ---------- (3) matrices and decay constants together *)
Lemma cum_data_error : forall d B K Bc Kc Gc c,
  wf_core d = true -> chk_float_data d B K = true -> chk_cum d Bc Kc Gc = true -> 0 <= c < 1 ->
  forall (delta : nat -> R) (n0 : nat -> R) t i, 0 <= t -> (forall k, Rabs (delta k) <= c) -> (forall j, 0 <= n0 j) -> (i < nn d)%nat ->
  Rabs (lam (mur d) i * sumn (nn d) (fun k => Cfr d i k *
           (EcumP (stableb d k) (lam (mur d) k * (1 + delta k)) t * sumn (nn d) (fun j => Cifr d k j * n0 j)))
        - Dcum (nn d) (Cr d) (Cir d) (mur d) (stableb d) n0 t i)
  <= (bqv Bc + bqv Kc * (c / (1 - c) ^ 2)) * sumn (nn d) n0.
Proof.
  intros d B K Bc Kc Gc c Hwf Hchk Hcum Hc delta n0 t i Ht Hd Hn Hi.
  destruct (chk_float_data_parts d B K Hchk) as [HCf _].
  destruct (wf_core_ranges d Hwf) as [HC _].
  destruct (chk_cum_parts d Bc Kc Gc Hcum) as [HB HK].
  unfold Dcum, w.
  set (n := nn d). set (lm := lam (mur d)).
  set (E := fun k => EcumP (stableb d k) (lm k * (1 + delta k)) t).
  set (E0 := fun k => Ecum (mur d) (stableb d) t k).
  set (wf := fun k => sumn n (fun j => Cifr d k j * n0 j)).
  set (wx := fun k => sumn n (fun j => Cir d k j * n0 j)).
  set (e1 := fun k => lm k * (E k - E0 k)).
  set (e2 := fun k => lm k * E0 k).
  set (P1 := fun k j => Wr d i k * Cfr d i k * Cifr d k j).
  set (P2 := fun k j => Wr d i k * Cfr d i k * Cifr d k j - Wr d i k * Cr d i k * Cir d k j).
  set (T1 := sumn n (fun k => e1 k * sumn n (fun j => P1 k j * n0 j))).
  set (T2 := sumn n (fun k => e2 k * sumn n (fun j => P2 k j * n0 j))).
  change (Rabs (lm i * sumn n (fun k => Cfr d i k * (E k * wf k)) - lm i * sumn n (fun k => Cr d i k * (E0 k * wx k)))
          <= (bqv Bc + bqv Kc * (c / (1 - c) ^ 2)) * sumn n n0).
  assert (HS : lm i * sumn n (fun k => Cfr d i k * (E k * wf k)) - lm i * sumn n (fun k => Cr d i k * (E0 k * wx k))
               = T1 + T2).
  { unfold T1, T2. rewrite <- !sumn_scal, <- sumn_minus, <- sumn_plus.
    apply sumn_ext. intros k Hk.
    assert (Q1 : sumn n (fun j => P1 k j * n0 j) = Wr d i k * Cfr d i k * wf k).
    { unfold P1, wf. rewrite <- sumn_scal. apply sumn_ext. intros; ring. }
    assert (Q2 : sumn n (fun j => P2 k j * n0 j) = Wr d i k * Cfr d i k * wf k - Wr d i k * Cr d i k * wx k).
    { unfold P2, wf, wx. rewrite <- !sumn_scal, <- sumn_minus. apply sumn_ext. intros; ring. }
    rewrite Q1, Q2. unfold e1, e2.
    assert (W1 : lm i * (E k - E0 k) = lm k * (E k - E0 k) * Wr d i k).
    { apply (weight_move d i k (E k - E0 k) Hk). intro Es. unfold E, E0, EcumP, Ecum. rewrite Es. ring. }
    assert (W2 : lm i * E0 k = lm k * E0 k * Wr d i k).
    { apply (weight_move d i k (E0 k) Hk). intro Es. unfold E0, Ecum. rewrite Es. reflexivity. }
    transitivity ((lm i * (E k - E0 k)) * (Cfr d i k * wf k) + (lm i * E0 k) * (Cfr d i k * wf k - Cr d i k * wx k)); [ring|].
    rewrite W1, W2. ring. }
  rewrite HS.
  assert (H1 : Rabs T1 <= bqv Kc * (c / (1 - c) ^ 2) * sumn n n0).
  { unfold T1. apply diag_bound.
    - intros j Hj. eapply Rle_trans; [|exact HK]. apply (K_cum_sound d HCf i j Hi).
    - intros k Hk. apply (e1_bound d Hwf c t delta Hc Ht Hd k Hk).
    - exact Hn. }
  assert (H2 : Rabs T2 <= bqv Bc * 1 * sumn n n0).
  { unfold T2. apply diag_bound.
    - intros j Hj. eapply Rle_trans; [|exact HB]. apply (B_cum_sound d HCf HC i j Hi).
    - intros k Hk. pose proof (e2_range d Hwf t Ht k Hk) as H. unfold e2, E0, lm. rewrite Rabs_right; lra.
    - exact Hn. }
  eapply Rle_trans; [apply Rabs_triang|]. lra.
Qed.

Print Assumptions ecum_perturbation.
Print Assumptions cum_data_error.
