(* C01 - Float decay equals the exact Bateman solution of the dataset (the parts decided by proof:
   the closed form IS the exact solution for every certified data set; the code's index-restricted
   product equals the closed form; the nuclide set is the progeny closure; the reference values used by
   the correspondence are proved enclosures of the closed form). *)
From Coq Require Import Reals ZArith NArith List Bool Arith.
From Coquelicot Require Import Coquelicot.
From Interval Require Import Real.Xreal Interval.Interval.
From RD Require Import Base Model.DecayR Lib.Sparse Lib.CertQ Model.Dataset Model.Default Model.DecayModel Model.DecayI.
From RD Require Proofs.Bateman Proofs.DatasetCert Proofs.DefaultWf Proofs.DecayModelP Proofs.DecayEnclosure Proofs.CertDefault.Patterns.
Import ListNotations.
Local Open Scope R_scope.

Section AnyCertifiedDataset.
  Variable d : dataset.
  Hypothesis Hwf : wf_core d = true.
  Notation NtD := (Nt (nn d) (Cr d) (Cir d) (mur d)).

  (* the closed form solves the decay ODE system built from half-lives, branching fractions, progeny *)
  Theorem closed_form_solves_ode : forall n0 t i, (i < nn d)%nat ->
    is_derive (fun s => NtD n0 s i) t (sumn (nn d) (fun m => Lam (Mr d) i m * NtD n0 t m)).
  Proof. exact (Proofs.Bateman.closed_form_solves_ode _ _ _ _ _ _ _ (Proofs.DatasetCert.wf_core_cert d Hwf)). Qed.

  Theorem closed_form_initial : forall n0 i, (i < nn d)%nat -> NtD n0 0 i = n0 i.
  Proof. exact (Proofs.Bateman.closed_form_initial _ _ _ _ _ _ _ (Proofs.DatasetCert.wf_core_cert d Hwf)). Qed.

  Theorem ode_solution_unique : forall (n0 : nat -> R) (y : nat -> R -> R),
    (forall i, (i < nn d)%nat -> y i 0 = n0 i) ->
    (forall i t, (i < nn d)%nat -> is_derive (y i) t (sumn (nn d) (fun m => Lam (Mr d) i m * y m t))) ->
    forall i t, (i < nn d)%nat -> y i t = NtD n0 t i.
  Proof. exact (Proofs.Bateman.ode_solution_unique _ _ _ _ _ _ _ (Proofs.DatasetCert.wf_core_cert d Hwf)). Qed.

  (* what the code computes (E filled only at the indices read off the pattern of C) is the closed form *)
  Theorem decay_model_is_closed_form : chk_same_patterns d = true ->
    forall contents t i v, In (i, v) (decay_model d contents t) ->
      v = NtD (n0_of contents) t i /\ (i < nn d)%nat.
  Proof. exact (Proofs.DecayModelP.decay_model_is_closed_form d Hwf). Qed.

  (* nuclides outside the reported set hold exactly zero atoms: nothing is lost by the restriction *)
  Theorem outside_indices_zero : chk_same_patterns d = true -> chk_pattern_transitive d = true ->
    forall contents t i, (i < nn d)%nat -> In i (indices d contents) \/ NtD (n0_of contents) t i = 0.
  Proof. exact (Proofs.DecayModelP.outside_indices_zero_trans d Hwf). Qed.
End AnyCertifiedDataset.

(* shipped data: patterns of the four matrices agree and equal the reachability closure of the link graph *)
Theorem default_patterns :
  chk_same_patterns Default = true /\ chk_cif_pattern_subset Default = true /\ chk_pattern_closure Default = true /\
  chk_pattern_transitive Default = true.
Proof. exact Proofs.CertDefault.Patterns.default_patterns. Qed.

(* the reference values of the correspondence are enclosures of the closed form *)
Theorem reference_encloses_closed_form : forall prec (d : dataset) (n0I : list (N * I.type)) (tI : I.type)
    (n0 : nat -> R) (t : R),
  wf_core d = true -> chk_same_patterns d = true ->
  (forall j, contains (I.convert (lookupI j n0I)) (Xreal (n0 (N.to_nat j)))) ->
  contains (I.convert tI) (Xreal t) ->
  forall i e, In (i, e) (NtI_all prec d n0I tI) ->
    contains (I.convert e) (Xreal (Nt (nn d) (Cr d) (Cir d) (mur d) n0 t (N.to_nat i))).
Proof. exact Proofs.DecayEnclosure.reference_encloses_closed_form. Qed.
