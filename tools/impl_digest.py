"""Runs against the REAL library (PYTHONPATH=/repo): digests of the objects DEFAULTDATA holds,
computed the same way as coq/Model/Digest.v, plus per-entry cross-checks."""
import json, math, sys
import numpy as np
MODP = (1 << 61) - 1

def fcode(x):
    x = float(x)
    if x != x: return -1
    if x == math.inf: return -2
    if x == -math.inf: return -3
    if x == 0.0: return -4 if math.copysign(1.0, x) < 0 else 0
    m, e = math.frexp(abs(x))
    # Coq: frshiftexp gives mantissa in [0.5,1) and exponent + 2101; subnormals are normalised too
    mz = int(m * (1 << 53))
    ez = e + 2101
    return (1 if x < 0 else 0) + 2 * (ez + 8192 * mz)

def mix(a, x): return (a * 1000003 + x) % MODP
def dig_str(a, s):
    a = mix(a, 7)
    for c in s: a = mix(a, ord(c))
    return a
def dig_strs(a, l):
    a = mix(a, 11)
    for s in l: a = dig_str(a, str(s))
    return a
def dig_floats(a, l):
    a = mix(a, 13)
    for f in l: a = mix(a, fcode(f))
    return a
def dig_q(a, p, q): return mix(mix(a, p % MODP), q % MODP)

def main():
    import radioactivedecay as rd
    from sympy import log, Rational
    d = rd.DEFAULTDATA
    out = [int(d.nuclides.size), dig_strs(1, list(d.nuclides))]
    a = 2
    for hl, unit, readable in d.hldata:
        a = dig_str(dig_str(mix(a, fcode(hl)), str(unit)), str(readable))
    out.append(a)
    a = 3
    for pr in d.progeny: a = dig_strs(a, pr)
    out.append(a)
    a = 4
    for bl in d.bfs: a = dig_floats(a, bl)
    out.append(a)
    a = 5
    for ml in d.modes: a = dig_strs(a, ml)
    out.append(a)
    out.append(dig_floats(6, list(d.scipy_data.atomic_masses)))
    out.append(fcode(d.float_year_conv))
    for tag, m in ((8, d.scipy_data.matrix_c), (9, d.scipy_data.matrix_c_inv)):
        a = tag
        m = m.tocsr()
        for i in range(m.shape[0]):
            a = mix(a, 17)
            for k in range(m.indptr[i], m.indptr[i + 1]):
                a = mix(mix(a, int(m.indices[k])), fcode(m.data[k]))
        out.append(a)
    sd = d.sympy_data
    a = 10
    ln2 = log(2)
    for i in range(sd.decay_consts.shape[0]):
        mu = sd.decay_consts[i, 0] / ln2
        mu = Rational(mu)
        a = dig_q(a, int(mu.p), int(mu.q))
    out.append(a)
    y = Rational(d.sympy_year_conv)
    out.append(dig_q(11, int(y.p), int(y.q)))
    for tag, m in ((12, sd.matrix_c), (13, sd.matrix_c_inv)):
        rows = {}
        for (i, j), v in m.todok().items():
            if v != 0:
                rows.setdefault(i, []).append((j, v))
        a = tag
        for i in range(m.shape[0]):
            a = mix(a, 19)
            for j, v in sorted(rows.get(i, [])):
                v = Rational(v)
                a = dig_q(mix(a, j), int(v.p), int(v.q))
        out.append(a)
    # float decay constants held by the library (recomputed at load time)
    lam = [float(x).hex() for x in d.scipy_data.decay_consts]
    print(json.dumps({"digest": out, "decay_consts_hex": lam}))

main()
