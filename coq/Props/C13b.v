(* C13 - Time series are pointwise decay results: the assembly loop of decay_time_series_pandas /
   decay_time_series (Model/SeriesAsm.v), for EVERY list of time points, every read-out function and every
   value type.  A column of the returned table holds, for its nuclide, exactly the values the separately
   decayed inventories report for that nuclide, in time order - nothing dropped, nothing duplicated, nothing
   moved between nuclides - and the columns appear in the order of the decayed inventory.  The hypothesis
   "every time point reports the same nuclides" is what C01's closure theorem provides (the nuclides of a
   decayed inventory do not depend on the decay time); [series_misaligned_without_it] shows it is needed. *)
From Coq Require Import NArith List Bool.
From RD Require Import Base Lib.Py Model.SeriesAsm.
From RD Require Proofs.SeriesAsmP.
Import ListNotations.

(* what a column holds, with no assumption on the read-outs *)
Theorem series_column_values : forall (V : Type) (ps : list (list (str * V))) (k : str),
  match d_get k (assemble ps) with Some vs => vs | None => [] end = flat_map (vals_of k) ps.
Proof. exact Proofs.SeriesAsmP.series_column_values. Qed.

(* which columns exist, and in which order: first occurrence over the time points *)
Theorem series_column_order : forall (V : Type) (ps : list (list (str * V))),
  map fst (assemble ps) = keys_from [] ps /\ NoDup (map fst (assemble ps)).
Proof. exact Proofs.SeriesAsmP.series_column_order. Qed.

(* the property: one column per nuclide of the decayed inventory in its order, one row per time point,
   each entry the separate decay's read-out *)
Theorem time_series_pointwise : forall (T V : Type) (times : list T) (readout_at : T -> list (str * V)) (ks : list str),
  times <> [] -> NoDup ks -> (forall t, In t times -> map fst (readout_at t) = ks) ->
  fst (time_series times readout_at) = times /\
  map fst (snd (time_series times readout_at)) = ks /\
  forall k, In k ks -> exists vs, d_get k (snd (time_series times readout_at)) = Some vs /\
                                  length vs = length times /\
                                  map Some vs = map (fun t => d_get k (readout_at t)) times.
Proof. exact Proofs.SeriesAsmP.time_series_pointwise. Qed.

(* non-vacuity: two time points, two nuclides *)
Example time_series_example :
  time_series [1%N; 2%N] (fun t => [([72%N], (t * 10)%N); ([74%N], (t * 10 + 1)%N)])
  = ([1%N; 2%N], [([72%N], [10%N; 20%N]); ([74%N], [11%N; 21%N])]).
Proof. exact Proofs.SeriesAsmP.time_series_example. Qed.

(* the hypothesis is needed: if a nuclide were missing at one time point, its column would be short and its later
   values would sit in the wrong rows *)
Theorem series_misaligned_without_it : exists (ps : list (list (str * N))) k vs,
  d_get k (assemble ps) = Some vs /\ length vs <> length ps.
Proof. exact Proofs.SeriesAsmP.series_misaligned_without_it. Qed.

(* ---------- the plotted curves (AbstractInventory.plot / InventoryHP.plot): one curve per displayed nuclide, in the
   requested order, whose i-th value is the read-out of that nuclide in the inventory decayed to the i-th time point *)
Theorem plot_curves_pointwise : forall (T V : Type) (times : list T) (readout_at : T -> list (str * V)) (display : list str) curves,
  plot_curves times readout_at display = Some curves ->
  map fst curves = display /\
  forall j rad vs, nth_error curves j = Some (rad, vs) ->
    length vs = length times /\ map Some vs = map (fun t => d_get rad (readout_at t)) times.
Proof. exact Proofs.SeriesAsmP.plot_curves_pointwise. Qed.

(* the plot is produced (no KeyError) exactly when every displayed nuclide is reported at every time point *)
Theorem plot_curves_defined : forall (T V : Type) (times : list T) (readout_at : T -> list (str * V)) (display : list str),
  (forall t rad, In t times -> In rad display -> d_get rad (readout_at t) <> None) <->
  plot_curves times readout_at display <> None.
Proof. exact Proofs.SeriesAsmP.plot_curves_defined. Qed.

Example plot_curves_example :
  plot_curves [1%N; 2%N] (fun t => [([72%N], (t * 10)%N); ([74%N], (t * 10 + 1)%N)]) [[74%N]; [72%N]]
  = Some [([74%N], [11%N; 21%N]); ([72%N], [10%N; 20%N])].
Proof. exact Proofs.SeriesAsmP.plot_curves_example. Qed.

(* ---------- which curves are drawn and in which order when display == "all" *)
(* "dataset" order is the order of the data set's own nuclide list restricted to the decayed inventory *)
Theorem dataset_order_spec : forall (input names : list str),
  NoDup names -> NoDup input -> (forall n, In n input -> In n names) ->
  sort_list_according_to_dataset input names = OK (filter (fun n => l_mem_str n input) names).
Proof. exact Proofs.SeriesAsmP.dataset_order_spec. Qed.

(* it fails (KeyError) exactly when a nuclide is not in the data set *)
Theorem dataset_order_keyerror : forall (input names : list str),
  (exists n, In n input /\ ~ In n names) <-> sort_list_according_to_dataset input names = Raise KeyError.
Proof. exact Proofs.SeriesAsmP.dataset_order_keyerror. Qed.

Theorem plot_display_all_spec : forall (order : str) (decayed names : list str),
  NoDup names -> NoDup decayed -> (forall n, In n decayed -> In n names) ->
  plot_display_all order decayed names =
    if s_eqb order s_dataset then OK (filter (fun n => l_mem_str n decayed) names)
    else if s_eqb order s_alphabetical then OK decayed
    else Raise ValueError.
Proof. exact Proofs.SeriesAsmP.plot_display_all_spec. Qed.

Example dataset_order_example :
  sort_list_according_to_dataset [[3%N]; [1%N]; [2%N]] [[1%N]; [9%N]; [2%N]; [3%N]] = OK [[1%N]; [2%N]; [3%N]].
Proof. exact Proofs.SeriesAsmP.dataset_order_example. Qed.

(* the two order keywords are the literals of the source *)
From Coq Require Import String.
Theorem order_literals : s_dataset = s2l "dataset" /\ s_alphabetical = s2l "alphabetical".
Proof. exact Proofs.SeriesAsmP.order_literals. Qed.
