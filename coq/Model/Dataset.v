(* Data sets and their executable well-formedness certificate (definitions only). *)
From Coq Require Import Reals ZArith NArith QArith List Bool.
From Bignums Require Import BigQ.
From RD Require Import Base Model.DecayR Lib.Sparse Lib.CertQ.
Import ListNotations.

Record dataset := DS {
  ds_names : list str;
  ds_hl : list hlrec;
  ds_progeny : list (list str);
  ds_bfs : list (list bfrec);
  ds_modes : list (list str);
  ds_masses_f : list float;
  ds_year_f : float;
  ds_year_dec : dlit;
  ds_cf : list frow;
  ds_cif : list frow;
  (* exact (SymPy) side *)
  ds_mu : list qlit;            (* lambda_i = mu_i * ln 2 *)
  ds_masses_e : list mexpr;
  ds_year_e : qlit;
  ds_c : list qrow;
  ds_ci : list qrow
}.

(* ---------- strings *)
Fixpoint str_eqb (a b : str) : bool :=
  match a, b with
  | [], [] => true
  | x :: a', y :: b' => N.eqb x y && str_eqb a' b'
  | _, _ => false
  end.

Fixpoint index_from (i : N) (names : list str) (s : str) : option N :=
  match names with
  | [] => None
  | x :: r => if str_eqb x s then Some i else index_from (N.succ i) r s
  end.
Definition index_of (names : list str) (s : str) : option N := index_from 0%N names s.

Fixpoint assoc {A} (s : str) (l : list (str * A)) : option A :=
  match l with
  | [] => None
  | (k, v) :: r => if str_eqb k s then Some v else assoc s r
  end.

Definition mem_str (s : str) (l : list str) : bool := existsb (str_eqb s) l.

(* ---------- exact numbers *)
Definition bq_of_dlit (d : dlit) : bq :=
  match de d with
  | Z0 => BigQ.of_Q (Qmake (dm d) 1)
  | Zpos e => BigQ.of_Q (Qmake (dm d * Z.pow_pos 10 e) 1)
  | Zneg e => BigQ.of_Q (Qmake (dm d) (Pos.pow 10 e))
  end.

Definition to_bq_row (r : qrow) : row bq := map (fun kx => (fst kx, bq_of (snd kx))) r.
Definition to_bq_mat (m : list qrow) : mat bq := map to_bq_row m.

Definition SF : str := [83%N; 70%N].

Section WithDataset.
  Variable d : dataset.

  Definition nN : N := N.of_nat (length (ds_names d)).
  Definition nn : nat := length (ds_names d).

  Definition Cq : mat bq := to_bq_mat (ds_c d).
  Definition Ciq : mat bq := to_bq_mat (ds_ci d).
  Definition muq : list bq := map bq_of (ds_mu d).
  Definition mu_at (k : nat) : bq := nth k muq BigQ.zero.

  (* link matrix B: row m lists (index of progeny, exact branching fraction) for every progeny
     that is a nuclide of the data set ("SF" and unknown names are not links) *)
  Fixpoint link_row (prog : list str) (bf : list bfrec) : row bq :=
    match prog, bf with
    | p :: prog', b :: bf' =>
        match index_of (ds_names d) p with
        | Some i => (i, bq_of_dlit (bf_dec b)) :: link_row prog' bf'
        | None => link_row prog' bf'
        end
    | _, _ => []
    end.
  Definition Bq : mat bq := map (fun pb => link_row (fst pb) (snd pb)) (combine (ds_progeny d) (ds_bfs d)).

  (* rate matrix / ln2, row-wise:  M_ii = -mu_i ;  M_im = B_mi * mu_m  (m <> i, m -> i a link).
     Written over explicit (index, link row, mu) triples so that the VM evaluates B and mu once. *)
  Definition nrange : list N := map N.of_nat (seq 0 nn).
  Definition Mrow_of (trip : list (N * (row bq * bq))) (imu : N * bq) : row bq :=
    let i := fst imu in
    (i, BigQ.opp (snd imu)) ::
    flat_map (fun t =>
      let m := fst t in let brow := fst (snd t) in let mum := snd (snd t) in
      if N.eqb m i then []
      else if existsb (N.eqb i) (cols bq brow)
           then [(m, BigQ.mul (bget brow i) mum)]
           else []) trip.
  Definition Mq_of (B : mat bq) (mu : list bq) : mat bq :=
    let trip := combine nrange (combine B mu) in
    map (Mrow_of trip) (combine nrange mu).
  Definition Mq : mat bq := Mq_of Bq muq.

  (* ---------- the checks *)
  Definition chk_lengths : bool :=
    let n := nn in
    Nat.eqb (length (ds_hl d)) n && Nat.eqb (length (ds_progeny d)) n &&
    Nat.eqb (length (ds_bfs d)) n && Nat.eqb (length (ds_modes d)) n &&
    Nat.eqb (length (ds_masses_f d)) n && Nat.eqb (length (ds_mu d)) n &&
    Nat.eqb (length (ds_masses_e d)) n && Nat.eqb (length (ds_cf d)) n &&
    Nat.eqb (length (ds_cif d)) n && Nat.eqb (length (ds_c d)) n && Nat.eqb (length (ds_ci d)) n.

  Definition chk_CCi : bool := bcheck_prod_id nN Cq Ciq.
  Definition chk_CiC : bool := bcheck_prod_id nN Ciq Cq.
  Definition chk_MC : bool := bcheck_diag nN Mq Cq muq.
  Definition chk_mu_nonneg : bool := forallb bq_nonneg muq.
  (* a stable nuclide (mu = 0) has no off-diagonal entry in its column of C *)
  Definition chk_stable_col_of (mu : list bq) (C : mat bq) : bool :=
    forall_rows bq (fun i r =>
      forallb (fun kx => N.eqb (fst kx) i || negb (bq_is_zero (nth (N.to_nat (fst kx)) mu BigQ.zero))) r) 0%N C.
  Definition chk_stable_col : bool := chk_stable_col_of muq Cq.
  (* no nuclide is its own progeny; link targets are in range *)
  Definition chk_links : bool :=
    forall_rows bq (fun m r => forallb (fun kx => negb (N.eqb (fst kx) m)) r) 0%N Bq
    && mat_in_range bq nN Bq.

  Definition wf_core : bool :=
    chk_lengths && chk_CCi && chk_CiC && chk_MC && chk_mu_nonneg && chk_stable_col && chk_links.

  (* ---------- structural checks on the reporting data (C04, C15) *)
  Fixpoint all3 {A B C} (f : A -> B -> C -> bool) (a : list A) (b : list B) (c : list C) : bool :=
    match a, b, c with
    | [], [], [] => true
    | x :: a', y :: b', z :: c' => f x y z && all3 f a' b' c'
    | _, _, _ => false
    end.

  (* progeny / bfs / modes lists have equal lengths for every nuclide *)
  Definition chk_aligned : bool :=
    all3 (fun p b m => Nat.eqb (length p) (length b) && Nat.eqb (length p) (length m))
         (ds_progeny d) (ds_bfs d) (ds_modes d).

  (* every progeny is a nuclide of the data set or the pseudo-nuclide SF; no duplicates per parent *)
  Fixpoint nodup_str (l : list str) : bool :=
    match l with [] => true | x :: r => negb (mem_str x r) && nodup_str r end.
  Definition chk_progeny_known : bool :=
    forallb (fun pr => forallb (fun p => str_eqb p SF ||
                                match index_of (ds_names d) p with Some _ => true | None => false end) pr
                       && nodup_str pr) (ds_progeny d).
  Definition chk_names_distinct : bool := nodup_str (ds_names d).

  (* every link goes from a smaller to a larger index: acyclic, parents stored first *)
  Definition chk_forward : bool :=
    forall_rows bq (fun m r => forallb (fun kx => N.ltb m (fst kx)) r) 0%N Bq.

  (* branching fractions: in (0,1], non-increasing, sum <= 1 + 1e-3 *)
  Definition bq_le (x y : bq) : bool := match BigQ.compare x y with Gt => false | _ => true end.
  Definition bq_lt (x y : bq) : bool := match BigQ.compare x y with Lt => true | _ => false end.
  Fixpoint nonincreasing (l : list bq) : bool :=
    match l with
    | x :: ((y :: _) as r) => bq_le y x && nonincreasing r
    | _ => true
    end.
  Definition bf_sum_max : bq := BigQ.of_Q (Qmake 1001 1000).
  Definition chk_bfs : bool :=
    forallb (fun bl =>
      let qs := map (fun b => bq_of_dlit (bf_dec b)) bl in
      forallb (fun q => bq_lt BigQ.zero q && bq_le q BigQ.one) qs
      && nonincreasing qs
      && bq_le (fold_right BigQ.add BigQ.zero qs) bf_sum_max) (ds_bfs d).

  (* stable <-> no progeny <-> mu = 0 <-> half-life inf *)
  Definition chk_stable_consistent : bool :=
    all3 (fun h p m =>
            let st := bq_is_zero (bq_of m) in
            Bool.eqb st (match hl_dec h with None => true | Some _ => false end)
            && Bool.eqb st (match p with [] => true | _ => false end)
            && Bool.eqb st (PrimFloat.eqb (hl_f h) infinity))
         (ds_hl d) (ds_progeny d) (ds_mu d).

  (* mu_i * T_i = 1 with T_i = decimal(half-life) * unit factor * (days per year if a year unit) *)
  Variable time_units_q : list (str * qlit).
  Variable year_units : list str.
  Definition halflife_seconds (h : hlrec) : option bq :=
    match hl_dec h, assoc (hl_unit h) time_units_q with
    | Some dec, Some f =>
        let t := BigQ.mul (bq_of_dlit dec) (bq_of f) in
        Some (if mem_str (hl_unit h) year_units then BigQ.mul t (bq_of (ds_year_e d)) else t)
    | _, _ => None
    end.
  Definition chk_halflife : bool :=
    forallb (fun hm =>
      match hl_dec (fst hm) with
      | None => true
      | Some _ => match halflife_seconds (fst hm) with
                  | Some t => BigQ.eq_bool (BigQ.mul (bq_of (snd hm)) t) BigQ.one
                  | None => false
                  end
      end) (combine (ds_hl d) (ds_mu d)).
  (* the exact year length is the decimal of the float year length *)
  Definition chk_year : bool := BigQ.eq_bool (bq_of (ds_year_e d)) (bq_of_dlit (ds_year_dec d)).

  (* ---------- names -> (element, A, state); decay modes vs (dZ, dA, state) *)
  Definition is_digit (c : N) : bool := N.leb 48 c && N.leb c 57.
  Fixpoint take_while (f : N -> bool) (s : str) : str :=
    match s with [] => [] | c :: r => if f c then c :: take_while f r else [] end.
  Fixpoint drop_while (f : N -> bool) (s : str) : str :=
    match s with [] => [] | c :: r => if f c then drop_while f r else s end.
  Definition dec_value (ds : str) : N := fold_left (fun acc c => (acc * 10 + (c - 48))%N) ds 0%N.
  (* "El-123m" -> (El, 123, m) ; None unless  letters '-' digits+ letters* *)
  Definition split_name (s : str) : option (str * N * str) :=
    let el := take_while (fun c => negb (N.eqb c 45)) s in
    match drop_while (fun c => negb (N.eqb c 45)) s with
    | _ :: rest =>
        let ds := take_while is_digit rest in
        let st := drop_while is_digit rest in
        match ds with
        | [] => None
        | _ => if forallb (fun c => negb (is_digit c) && negb (N.eqb c 45)) (el ++ st)
               then Some (el, dec_value ds, st) else None
        end
    | [] => None
    end.
  Variable z_dict : list (Z * str).
  Fixpoint z_of_elem (el : str) (l : list (Z * str)) : option Z :=
    match l with [] => None | (z, e) :: r => if str_eqb e el then Some z else z_of_elem el r end.
  Definition zas (s : str) : option (Z * Z * str) :=
    match split_name s with
    | Some (el, a, st) => match z_of_elem el z_dict with Some z => Some (z, Z.of_N a, st) | None => None end
    | None => None
    end.
  Definition m_alpha : str := [945%N].
  Definition m_betam : str := [946%N; 45%N].
  Definition m_betap_ec : str := [946%N; 43%N; 32%N; 38%N; 32%N; 69%N; 67%N].
  Definition m_ec : str := [69%N; 67%N].
  Definition m_it : str := [73%N; 84%N].
  Definition mode_ok (parent prog mode : str) : bool :=
    if str_eqb mode SF then str_eqb prog SF
    else match zas parent, zas prog with
         | Some (zp, ap, sp), Some (zd, ad, sd) =>
             if str_eqb mode m_alpha then Z.eqb zd (zp - 2) && Z.eqb ad (ap - 4)
             else if str_eqb mode m_betam then Z.eqb zd (zp + 1) && Z.eqb ad ap
             else if str_eqb mode m_betap_ec || str_eqb mode m_ec then Z.eqb zd (zp - 1) && Z.eqb ad ap
             else if str_eqb mode m_it then Z.eqb zd zp && Z.eqb ad ap && negb (str_eqb sp sd)
             else false
         | _, _ => false
         end.
  Fixpoint all2 {A B} (f : A -> B -> bool) (a : list A) (b : list B) : bool :=
    match a, b with
    | [], [] => true
    | x :: a', y :: b' => f x y && all2 f a' b'
    | _, _ => false
    end.
  Definition chk_modes : bool :=
    all3 (fun nm pr ml => all2 (mode_ok nm) pr ml) (ds_names d) (ds_progeny d) (ds_modes d).
  (* every name has the canonical shape El-A[state] with a known element *)
  Definition chk_names_shape : bool :=
    forallb (fun nm => match zas nm with Some _ => true | None => false end) (ds_names d).

  (* ---------- readable half-life strings denote the stored duration (to printed precision) *)
  Definition parse_decimal (s : str) : option dlit :=   (* digits [ '.' digits ] *)
    let ip := take_while is_digit s in
    match ip, drop_while is_digit s with
    | [], _ => None
    | _, [] => Some (DL (Z.of_N (dec_value ip)) 0)
    | _, 46%N :: fr =>
        if forallb is_digit fr && negb (Nat.eqb (length fr) 0)
        then Some (DL (Z.of_N (dec_value (ip ++ fr))) (- Z.of_nat (length fr))) else None
    | _, _ => None
    end.
  Definition stable_str : str := [115%N; 116%N; 97%N; 98%N; 108%N; 101%N].
  Definition bq_abs (x : bq) : bq := if bq_lt x BigQ.zero then BigQ.opp x else x.
  Definition readable_ok (h : hlrec) : bool :=
    match hl_dec h with
    | None => str_eqb (hl_read h) stable_str
    | Some _ =>
        let num := take_while (fun c => negb (N.eqb c 32)) (hl_read h) in
        match drop_while (fun c => negb (N.eqb c 32)) (hl_read h) with
        | _ :: unit =>
            match parse_decimal num, assoc unit time_units_q, halflife_seconds h with
            | Some dec, Some f, Some t =>
                let yr := if mem_str unit year_units then bq_of (ds_year_e d) else BigQ.one in
                let scale := BigQ.mul (bq_of f) yr in
                let shown := BigQ.mul (bq_of_dlit dec) scale in
                (* half a unit in the last printed digit *)
                let tol := BigQ.mul (BigQ.mul (bq_of_dlit (DL 5 (de dec - 1))) scale) BigQ.one in
                bq_le (bq_abs (BigQ.sub shown t)) tol
            | _, _, _ => false
            end
        | [] => false
        end
    end.
  Definition chk_readable : bool := forallb readable_ok (ds_hl d).

  Definition wf_struct : bool :=
    chk_aligned && chk_progeny_known && chk_names_distinct && chk_forward && chk_bfs
    && chk_stable_consistent && chk_halflife && chk_year && chk_modes && chk_names_shape && chk_readable.

  (* ---------- the real-valued view used by the generic theorems *)
  Definition Cr (i j : nat) : R := bent Cq i j.
  Definition Cir (i j : nat) : R := bent Ciq i j.
  Definition Mr (i j : nat) : R := bent Mq i j.
  Definition mur (k : nat) : R := bqv (mu_at k).
  Definition bfr (p i : nat) : R := bent Bq p i.
  Definition stableb (k : nat) : bool := bq_is_zero (mu_at k).
End WithDataset.

(* ---------- sparsity patterns (C01: the progeny closure is read off the pattern of the float matrix C) *)
Section Patterns.
  Variable d : dataset.
  Definition row_cols_q (r : qrow) : list N := map fst (filter (fun kx => negb (Z.eqb (qn (snd kx)) 0)) r).
  Definition row_cols_f (r : frow) : list N := map fst (filter (fun kx => negb (PrimFloat.eqb (snd kx) PrimFloat.zero)) r).
  Fixpoint list_eqb_N (a b : list N) : bool :=
    match a, b with [] , [] => true | x :: a', y :: b' => N.eqb x y && list_eqb_N a' b' | _, _ => false end.
  (* the four matrices have the same non-zero pattern, row by row (stored column order) *)
  Definition chk_same_patterns : bool :=
    all2 (fun r1 r2 => list_eqb_N (row_cols_q r1) (row_cols_q r2)) (ds_c d) (ds_ci d)
    && all2 (fun r1 r2 => list_eqb_N (row_cols_q r1) (row_cols_f r2)) (ds_c d) (ds_cf d).
  (* C^-1 float may store explicit zeros where the exact entry is tiny: its pattern must be a subset *)
  Definition chk_cif_pattern_subset : bool :=
    all2 (fun r1 r2 => forallb (fun k => existsb (N.eqb k) (row_cols_q r1)) (row_cols_f r2)) (ds_ci d) (ds_cif d).

  (* pattern(C) = reachability closure of the link graph: row i lists i and all its ancestors.
     anc(i) = {i} U union of anc(p) for the parents p of i; links go forward, so one pass suffices. *)
  Definition parents_in (iB : list (N * row bq)) (i : N) : list N :=
    map fst (filter (fun mr => existsb (N.eqb i) (cols bq (snd mr))) iB).
  Fixpoint insert_N (x : N) (l : list N) : list N :=
    match l with [] => [x] | y :: r => if N.ltb x y then x :: l else if N.eqb x y then l else y :: insert_N x r end.
  Definition union_N (a b : list N) : list N := fold_right insert_N b a.
  (* anc table built in index order: parents have smaller indices *)
  Definition anc_table_of (rng : list N) (B : mat bq) : list (list N) :=
    let iB := combine rng B in
    fold_left (fun tbl i =>
                 let ps := parents_in iB i in
                 tbl ++ [insert_N i (fold_right (fun p acc => union_N (nth (N.to_nat p) tbl []) acc) [] ps)])
              rng [].
  Definition anc_table : list (list N) := anc_table_of (nrange d) (Bq d).
  (* the pattern of C is transitively closed: if C_ik <> 0 and C_kj <> 0 then C_ij <> 0 *)
  Definition chk_pattern_transitive : bool :=
    forallb (fun r => let cs := row_cols_q r in
       forallb (fun k => forallb (fun j => existsb (N.eqb j) cs)
                                 (row_cols_q (nth (N.to_nat k) (ds_c d) []))) cs) (ds_c d).
  Definition sort_N (l : list N) : list N := fold_right insert_N [] l.
  Definition chk_pattern_closure : bool :=
    all2 (fun r anc => list_eqb_N (sort_N (row_cols_q r)) anc) (ds_c d) anc_table.
End Patterns.
