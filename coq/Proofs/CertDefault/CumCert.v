From Coq Require Import List PrimFloat.
From RD Require Import Base Lib.CertQ Model.Dataset Model.Default Model.FloatData Model.CumData Proofs.CertDefault.FloatDataCert.
Definition Bc_bound : qlit := QL 2 1000000000000.        (* B_cum(Default) = 1.93e-12 *)
Definition Kc_bound : qlit := QL 532 1.                   (* K_cum(Default) = 531.04 *)
Definition Gc_bound : qlit := QL 10181 1.                 (* G_cum(Default) = 10180.8 ; times 2^-53 = 1.13e-12 *)
Definition Lmax_f : float := 0x1p40%float.
Lemma default_cum : chk_cum Default (bq_of Bc_bound) (bq_of Kc_bound) (bq_of Gc_bound) = true.
Proof. vm_cast_no_check (eq_refl true). Qed.
Lemma default_lam_range : chk_lam_range default_lam_val Lmax_f = true.
Proof. vm_cast_no_check (eq_refl true). Qed.
