From RD Require Import Base Model.Dataset Model.Default Gen.Tables.
Lemma default_struct : wf_struct Default time_units_q year_units z_dict = true.
Proof. vm_cast_no_check (eq_refl true). Qed.
