(* Model of the time grids and of the unit dispatch of decay_time_series_pandas / plot / to_csv.
   The dispatch chains are GENERATED (Gen/DispatchGen.v); the grids are hand-written models of
   numpy.linspace (tie: bit-exact correspondence).  Definitions only. *)
From Coq Require Import ZArith NArith List Bool.
From Coq Require Import PrimFloat.
From RD Require Import Base Lib.Py Lib.Num Gen.Tables Gen.DispatchGen.
Import ListNotations.

(* numpy.linspace(start, stop, num) for num >= 2: step = (stop - start)/(num - 1); y_i = i*step + start; y_last = stop *)
Definition nat_to_float (n : nat) : float := of_uint63 (Uint63.of_Z (Z.of_nat n)).
Definition linspace_f (start stop : float) (num : nat) : list float :=
  match num with
  | O => []
  | S O => [start]
  | S dv =>
      let step := PrimFloat.div (sub stop start) (nat_to_float dv) in
      map (fun i => if Nat.eqb i dv then stop else add (mul (nat_to_float i) step) start) (seq 0 num)
  end.

(* ---------- dispatch *)
Definition table_keys (t : N) : list str :=
  match t with
  | 0%N => map fst activity_units_q
  | 1%N => map fst moles_units_q
  | 2%N => map fst mass_units_q
  | _ => []
  end.
Definition cond_holds (c : dcond) (u : str) : bool :=
  match c with InTable t => l_mem_str u (table_keys t) | EqLit s => s_eqb u s end.
Fixpoint select {A} (chain : list (dcond * A)) (u : str) : option A :=
  match chain with [] => None | (c, a) :: r => if cond_holds c u then Some a else select r u end.

(* the specification: which read-out a unit string names *)
Definition lit (l : list N) : str := l.
Definition s_num : str := [110; 117; 109]%N.
Definition s_activity_frac : str := [97;99;116;105;118;105;116;121;95;102;114;97;99]%N.
Definition s_mass_frac : str := [109;97;115;115;95;102;114;97;99]%N.
Definition s_mol_frac : str := [109;111;108;95;102;114;97;99]%N.
Definition spec_select (u : str) : option N :=
  if l_mem_str u (map fst activity_units_q) then Some 0%N
  else if l_mem_str u (map fst moles_units_q) then Some 1%N
  else if l_mem_str u (map fst mass_units_q) then Some 2%N
  else if s_eqb u s_num then Some 3%N
  else if s_eqb u s_activity_frac then Some 4%N
  else if s_eqb u s_mass_frac then Some 5%N
  else if s_eqb u s_mol_frac then Some 6%N
  else None.
