(* The diagram model instantiated with a data set. *)
From Coq Require Import ZArith NArith List Bool.
From RD Require Import Base Lib.Py Model.Dataset Model.Digraph.
Import ListNotations.

Fixpoint zip4 (ns : list str) (hs : list hlrec) (ps : list (list str)) (rs : list (list str)) (ms : list (list str)) : gview :=
  match ns, hs, ps, rs, ms with
  | n :: ns', h :: hs', p :: ps', r :: rs', m :: ms' =>
      GN n (hl_read h) (match hl_dec h with None => true | Some _ => false end) p r m :: zip4 ns' hs' ps' rs' ms'
  | _, _, _, _, _ => []
  end.
Definition graph_view (d : dataset) (reprs : list (list str)) : gview :=
  zip4 (ds_names d) (ds_hl d) (ds_progeny d) reprs (ds_modes d).
Definition all_graphs_ok (gv : gview) : bool := forallb (fun g => graph_ok gv (g_name g)) gv.
