#!/venv/bin/python
"""tr_tables: constant tables of utils.py / converters.py / plots.py -> coq/Gen/Tables.v

Only AST *literals* are evaluated (numbers, + - * / of numbers with CPython float semantics,
`Integer(k)` arithmetic evaluated exactly with Fraction); anything else aborts (fail-closed).
The one non-literal is `nsimplify(AVOGADRO)`: its value is obtained by calling SymPy's nsimplify
on the literal float (an oracle, recorded in the trusted base) and Coq proves how close it is.
"""
import ast
import os
import sys
from fractions import Fraction

sys.path.insert(0, os.path.dirname(os.path.abspath(__file__)))
from tr_data import coq_str, coq_float, coq_q, write_if_changed
from pickle_stub import TranslationError

REPO = os.environ.get("RD_REPO", "/repo")


def parse(path):
    with open(path, encoding="utf-8") as f:
        return ast.parse(f.read())


def find_assign(body, name):
    for st in body:
        if isinstance(st, ast.Assign) and len(st.targets) == 1 and isinstance(st.targets[0], ast.Name) \
                and st.targets[0].id == name:
            return st.value
        if isinstance(st, ast.AnnAssign) and isinstance(st.target, ast.Name) and st.target.id == name \
                and st.value is not None:
            return st.value
    raise TranslationError(f"assignment to {name} not found")


def find_class(tree, name):
    for st in tree.body:
        if isinstance(st, ast.ClassDef) and st.name == name:
            return st
    raise TranslationError(f"class {name} not found")


def fold_float(e):
    """numeric literal expression with CPython semantics -> int or float"""
    if isinstance(e, ast.Constant) and isinstance(e.value, (int, float)) and not isinstance(e.value, bool):
        return e.value
    if isinstance(e, ast.UnaryOp) and isinstance(e.op, ast.USub):
        return -fold_float(e.operand)
    if isinstance(e, ast.BinOp):
        a, b = fold_float(e.left), fold_float(e.right)
        if isinstance(e.op, ast.Mult):
            return a * b
        if isinstance(e.op, ast.Div):
            return a / b
        if isinstance(e.op, ast.Add):
            return a + b
        if isinstance(e.op, ast.Sub):
            return a - b
    raise TranslationError(f"unsupported float table expression: {ast.dump(e)}")


def fold_exact(e):
    """SymPy Integer(...) arithmetic -> Fraction.  A bare Python int may only appear combined with
    an Integer(...) operand (Python int/int would be a float)."""
    def go(x):
        if isinstance(x, ast.Call) and isinstance(x.func, ast.Name) and x.func.id == "Integer" \
                and len(x.args) == 1 and not x.keywords and isinstance(x.args[0], ast.Constant) \
                and isinstance(x.args[0].value, int):
            return Fraction(x.args[0].value), True
        if isinstance(x, ast.Constant) and isinstance(x.value, int) and not isinstance(x.value, bool):
            return Fraction(x.value), False
        if isinstance(x, ast.BinOp):
            (a, sa), (b, sb) = go(x.left), go(x.right)
            if not (sa or sb):
                raise TranslationError("int op int inside a SymPy table (would not be exact)")
            if isinstance(x.op, ast.Mult):
                return a * b, True
            if isinstance(x.op, ast.Div):
                return a / b, True
            if isinstance(x.op, ast.Add):
                return a + b, True
            if isinstance(x.op, ast.Sub):
                return a - b, True
        raise TranslationError(f"unsupported SymPy table expression: {ast.dump(x)}")
    v, s = go(e)
    if not s:
        raise TranslationError("bare Python int in a SymPy table")
    return v


def dict_items(e, keyfn, valfn):
    if not isinstance(e, ast.Dict):
        raise TranslationError("expected a dict literal")
    out = []
    for k, v in zip(e.keys, e.values):
        if k is None:
            raise TranslationError("dict unpacking in table")
        out.append((keyfn(k), valfn(v)))
    keys = [k for k, _ in out]
    if len(set(keys)) != len(keys):
        # Python keeps the LAST value of a duplicated key at the FIRST position
        merged = {}
        for k, v in out:
            merged[k] = v
        out = list(merged.items())
    return out


def const_str(e):
    if isinstance(e, ast.Constant) and isinstance(e.value, str):
        return e.value
    raise TranslationError("expected a string literal")


def const_int(e):
    if isinstance(e, ast.Constant) and isinstance(e.value, int) and not isinstance(e.value, bool):
        return e.value
    raise TranslationError("expected an int literal")


def emit_table(name, ty, items, kf, vf):
    return (f"Definition {name} : list ({ty}) := [\n" +
            ";\n".join(f"  ({kf(k)}, {vf(v)})" for k, v in items) + "\n].\n")


def translate(outpath):
    conv = parse(os.path.join(REPO, "radioactivedecay/converters.py"))
    utils = parse(os.path.join(REPO, "radioactivedecay/utils.py"))
    plots = parse(os.path.join(REPO, "radioactivedecay/plots.py"))

    out = ["(* GENERATED by tools/tr_tables.py from converters.py, utils.py, plots.py -- do not edit *)",
           "From Coq Require Import String.", "From RD Require Import Base.",
           "Local Open Scope string_scope.", ""]

    # ---- converters.py
    avo = fold_float(find_assign(conv.body, "AVOGADRO"))
    if not isinstance(avo, float):
        raise TranslationError("AVOGADRO is not a float literal")
    out.append(f"Definition avogadro_f : float := {coq_float(avo)}.")
    uc = find_class(conv, "UnitConverter")
    yu = find_assign(uc.body, "year_units")
    if not isinstance(yu, ast.Set):
        raise TranslationError("year_units is not a set literal")
    years = sorted(const_str(e) for e in yu.elts)
    out.append("Definition year_units : list str := [" + "; ".join(coq_str(s) for s in years) + "].")
    ucf = find_class(conv, "UnitConverterFloat")
    ucs = find_class(conv, "UnitConverterSympy")
    for kind in ("time", "activity", "mass", "moles"):
        itf = dict_items(find_assign(ucf.body, f"{kind}_units"), const_str, fold_float)
        its = dict_items(find_assign(ucs.body, f"{kind}_units"), const_str, fold_exact)
        out.append(emit_table(f"{kind}_units_f", "str * float", itf, coq_str, coq_float))
        out.append(emit_table(f"{kind}_units_q", "str * qlit", its, coq_str, coq_q))
    # the avogadro attributes must be wired to AVOGADRO / nsimplify(AVOGADRO)
    qcf = find_class(conv, "QuantityConverterFloat")
    v = find_assign(qcf.body, "avogadro")
    if not (isinstance(v, ast.Name) and v.id == "AVOGADRO"):
        raise TranslationError("QuantityConverterFloat.avogadro is not AVOGADRO")
    qcs = find_class(conv, "QuantityConverterSympy")
    v = find_assign(qcs.body, "avogadro")
    if not (isinstance(v, ast.Call) and isinstance(v.func, ast.Name) and v.func.id == "nsimplify"
            and len(v.args) == 1 and isinstance(v.args[0], ast.Name) and v.args[0].id == "AVOGADRO"
            and not v.keywords):
        raise TranslationError("QuantityConverterSympy.avogadro is not nsimplify(AVOGADRO)")
    import sympy  # oracle: nsimplify
    av = sympy.nsimplify(avo)
    if not av.is_Rational:
        raise TranslationError("nsimplify(AVOGADRO) is not rational")
    out.append(f"Definition avogadro_q : qlit := {coq_q(Fraction(int(av.p), int(av.q)))}.")

    # ---- utils.py
    zd = dict_items(find_assign(utils.body, "Z_DICT"), const_int, const_str)
    out.append(emit_table("z_dict", "Z * str", zd, lambda k: f"{k}%Z", coq_str))
    sd = find_assign(utils.body, "SYM_DICT")
    if ast.unparse(sd) != "dict(((v, k) for k, v in Z_DICT.items()))":
        raise TranslationError("SYM_DICT is not the inverse of Z_DICT: " + ast.unparse(sd))
    mc = find_assign(utils.body, "METASTABLE_CHARS")
    if not isinstance(mc, ast.List):
        raise TranslationError("METASTABLE_CHARS is not a list literal")
    out.append("Definition metastable_chars : list str := [" +
               "; ".join(coq_str(const_str(e)) for e in mc.elts) + "].")

    # ---- plots.py label tables (inside the two functions)
    def func(tree, name):
        for st in tree.body:
            if isinstance(st, ast.FunctionDef) and st.name == name:
                return st
        raise TranslationError(f"function {name} not found")
    nc = dict_items(find_assign(func(plots, "_parse_nuclide_label").body, "nuclide_conversion"),
                    const_str, const_str)
    out.append(emit_table("nuclide_conversion", "str * str", nc, coq_str, coq_str))
    mcv = dict_items(find_assign(func(plots, "_parse_decay_mode_label").body, "mode_conversion"),
                     const_str, const_str)
    out.append(emit_table("mode_conversion", "str * str", mcv, coq_str, coq_str))

    text = "\n".join(out) + "\n"
    changed = write_if_changed(outpath, text)
    return {"changed": changed, "year_units": years, "avogadro": repr(avo)}


if __name__ == "__main__":
    here = os.path.dirname(os.path.abspath(__file__))
    outp = os.path.normpath(os.path.join(here, "..", "coq", "Gen", "Tables.v"))
    try:
        print(translate(outp))
    except TranslationError as e:
        print(f"TRANSLATION-ERROR tr_tables: {e}")
        sys.exit(3)
