#!/venv/bin/python
"""Regenerates the tables of DESIGN.md section 9 (between the GENERATED markers) from the evidence files,
the seeded-change records and known_findings.json, so that the document states what the checks did, not
what was planned."""
import glob, json, os, re

VERIF = os.path.normpath(os.path.join(os.path.dirname(os.path.abspath(__file__)), ".."))
BEGIN, END = "<!-- BEGIN GENERATED: as-built tables -->", "<!-- END GENERATED -->"


def short_ax(a):
    return a.split(".")[-1]


def theorem_table():
    rows = ["| property | theorems (Props/*.v) | axioms reported by Print Assumptions | correspondence streams (quick tier) |",
            "|---|---|---|---|"]
    for f in sorted(glob.glob(os.path.join(VERIF, "evidence", "C*.json"))):
        e = json.load(open(f))
        cov = e["coverage"]
        ths = cov.get("theorems", {})
        axs = sorted({short_ax(a) for v in ths.values() if v for a in v if not a.startswith(("Uint63", "PrimInt63", "PrimFloat", "FloatAxioms", "FloatOps", "Sint63"))})
        prim = any(a.startswith(("Uint63", "PrimInt63", "PrimFloat", "FloatAxioms", "FloatOps")) for v in ths.values() if v for a in v)
        ax = ", ".join(axs) if axs else "none"
        if prim:
            ax += " + primitive int/float specifications"
        streams = "; ".join(f"{k}: {v.get('cases', '?')}" for k, v in cov.get("correspondence", {}).items() if isinstance(v, dict))
        rows.append(f"| {e['property_id']} | {len(ths)}: " + ", ".join(f"`{t}`" for t in ths) + f" | {ax} | {streams} |")
    return "\n".join(rows)


def seeded_table():
    rows = ["| change | what it does (needs in order to manifest) | outcome of `./check <property>` (quick) | replay kinds |",
            "|---|---|---|---|"]
    for d in sorted(glob.glob(os.path.join(VERIF, "seeded", "C*"))):
        m = json.load(open(os.path.join(d, "meta.json")))
        name = os.path.basename(d)
        chk = (m.get("check") or {}).get(m.get("property"), {})
        lines = chk.get("lines", [])
        vi = [l for l in lines if l.startswith("VIOLATION")]
        withinp = [l for l in vi if "no-failing-input-found" not in l]
        if not chk:
            out = "not run"
        elif not vi:
            out = "**missed**"
        elif withinp:
            out = "caught, failing input reported"
        else:
            out = "caught (obligation / tie broken), no-failing-input-found"
        kinds = sorted({re.sub(r"-\d+$", "", os.path.basename(l.split("replay=")[1].split()[0]).replace(".json", "").split("-", 1)[1]) for l in vi})
        what = (m.get("what", "") + ((" — needs: " + m["needs"]) if m.get("needs") else "")).replace("|", "\\|")
        rows.append(f"| {name} | {what} | {out} | {', '.join(kinds)} |")
    return "\n".join(rows)


def findings_table():
    kf = json.load(open(os.path.join(VERIF, "known_findings.json")))
    rows = ["| id | property | status | what fails |", "|---|---|---|---|"]
    for f in kf["findings"]:
        st = f.get("status")
        if st == "fixed":
            st = "fixed in /repo " + str(f.get("commit", ""))[:7]
        rows.append(f"| {f.get('id', '')} | {f.get('property')} | {st} | {str(f.get('what', ''))[:260]} |")
    return "\n".join(rows)


def main():
    p = os.path.join(VERIF, "DESIGN.md")
    s = open(p).read()
    body = (f"{BEGIN}\n\n#### 9.A Theorems, axioms and streams per property (from evidence/*.json)\n\n{theorem_table()}\n\n"
            f"#### 9.B Seeded changes and what the checks reported (from seeded/*/meta.json)\n\n{seeded_table()}\n\n"
            f"#### 9.C Defects found in /repo (from known_findings.json)\n\n{findings_table()}\n\n{END}")
    if BEGIN in s:
        s = s[:s.index(BEGIN)] + body + s[s.index(END) + len(END):]
    else:
        s = s.rstrip("\n") + "\n\n" + body + "\n"
    open(p, "w").write(s)


if __name__ == "__main__":
    main()
