"""Implementation side of the C12 stream (PYTHONPATH=/repo): real files in a fresh temporary directory.
stdin JSON: {"roundtrips": [case...], "handwritten": [case...]}
 roundtrip case: {"cls", "contents": {name: hex}, "cunit", "unit", "delim", "enc", "write_units", "header"}
 handwritten  : {"text", "kwargs": {...}, "direct": [[name_or_id, amount, unit]...]|null}"""
import json, sys, os, tempfile, math

def main():
    import sympy
    import radioactivedecay as rd
    req = json.load(sys.stdin)
    tmp = tempfile.mkdtemp(prefix="rdverif_csv_")
    out = {"roundtrips": [], "handwritten": []}

    def dump(inv):
        return {"cls": type(inv).__name__,
                "numbers": {k: float(v).hex() for k, v in inv.numbers().items()},
                "types": sorted({type(v).__name__ for v in inv.contents.values()})}
    try:
        for i, c in enumerate(req["roundtrips"]):
            r = {}
            p = os.path.join(tmp, f"f{i}.csv")
            try:
                cls = rd.InventoryHP if c["cls"] == "InventoryHP" else rd.Inventory
                inv = cls({k: float.fromhex(v) for k, v in c["contents"].items()}, c["cunit"])
                r["orig"] = dump(inv)
                hdr = ["nuclide", "quantity", "units"][: 3 if c["write_units"] else 2] if c["header"] else None
                inv.to_csv(p, units=c["unit"], delimiter=c["delim"], write_units=c["write_units"], header=hdr, encoding=c["enc"])
                raw = open(p, "rb").read()
                r["text"] = raw.decode(c["enc"])
                kw = dict(inventory_type=c["cls"], delimiter=c["delim"], skip_rows=1 if c["header"] else 0, encoding=c["enc"])
                if not c["write_units"]:
                    kw["units"] = c["unit"]
                elif c.get("wrong_units_arg"):
                    kw["units"] = c["wrong_units_arg"]
                back = rd.read_csv(p, **kw)
                r["back"] = dump(back)
                # read-outs of the original in the file's unit (what should be in the file)
                u = c["unit"]
                uc = inv._get_unit_converter()
                if u in uc.activity_units: ro = inv.activities(u)
                elif u in uc.mass_units: ro = inv.masses(u)
                elif u in uc.moles_units: ro = inv.moles(u)
                else: ro = inv.numbers()
                r["readout"] = {k: float(v).hex() for k, v in ro.items()}
            except Exception as e:
                r["err"] = type(e).__name__ + ": " + str(e)[:120]
            finally:
                if os.path.exists(p):
                    os.remove(p)
            out["roundtrips"].append(r)
        for i, c in enumerate(req["handwritten"]):
            r = {}
            p = os.path.join(tmp, f"h{i}.csv")
            try:
                with open(p, "w", encoding=c.get("enc", "utf-8"), newline="") as f:
                    f.write(c["text"])
                inv = rd.read_csv(p, **c["kwargs"])
                r["got"] = dump(inv)
            except Exception as e:
                r["err"] = type(e).__name__
            finally:
                if os.path.exists(p):
                    os.remove(p)
            if c.get("direct") is not None:
                try:
                    cls = rd.InventoryHP if c["kwargs"].get("inventory_type") == "InventoryHP" else rd.Inventory
                    first = c["direct"][0]
                    d = cls({first[0]: first[1]}, first[2]) if first[2] else cls({first[0]: first[1]})
                    for n, a, u in c["direct"][1:]:
                        if u: d.add({n: a}, u)
                        else: d.add({n: a})
                    r["direct"] = dump(d)
                except Exception as e:
                    r["direct_err"] = type(e).__name__
            out["handwritten"].append(r)
    finally:
        for f in os.listdir(tmp):
            os.remove(os.path.join(tmp, f))
        os.rmdir(tmp)
    json.dump(out, sys.stdout)
main()
