(* C06 - A decay time means the same duration however it is expressed.
   Statements about the GENERATED time table and the GENERATED time conversion. *)
From Coq Require Import ZArith NArith List Bool QArith Reals Qreals.
From RD Require Import Base Lib.Py Lib.Num Gen.Tables Gen.ConvGen Gen.InvGen Model.UnitSpec Model.UnitsR.
From RD Require Proofs.Units.
Import ListNotations.
Local Open Scope R_scope.

(* the 27 time-unit strings, their factors, and the set of year-based units are those of the property;
   the float table agrees with the exact one to one ulp *)
Theorem time_table_spec :
  same_table (tQ time_units_q) spec_time = true /\
  float_table_close time_units_f time_units_q = true /\
  keys_nodup (tQ time_units_q) = true /\ length time_units_q = 27%nat /\
  (forall u, l_mem_str u year_units = l_mem_str u spec_year_units).
Proof. exact Proofs.Units.time_table_spec. Qed.

(* t units = t * (seconds per unit) seconds, year-based units using the data set's days per year *)
Theorem seconds_of : forall year t u f, q_assoc u spec_time = Some f ->
  exists s, r_seconds year t u = OK s /\
            s = t * Q2R f * (if l_mem_str u spec_year_units then year else 1).
Proof. exact Proofs.Units.seconds_of. Qed.

(* synonyms are interchangeable: equal factor and equal year-dependence *)
Theorem synonyms_interchangeable : forall year t a b,
  In (a, b) [ ([117; 115], [956; 115]);                         (* us = μs *)
              ([115], [115; 101; 99]); ([115], [115; 101; 99; 111; 110; 100]); ([115], [115; 101; 99; 111; 110; 100; 115]);
              ([104], [104; 114]); ([104], [104; 111; 117; 114]); ([104], [104; 111; 117; 114; 115]);
              ([100], [100; 97; 121]); ([100], [100; 97; 121; 115]);
              ([121], [121; 114]); ([121], [121; 101; 97; 114]); ([121], [121; 101; 97; 114; 115]);
              ([66; 121], [71; 121]) ]%N ->
  r_seconds year t a = r_seconds year t b.
Proof. exact Proofs.Units.synonyms_interchangeable. Qed.

(* an unknown unit is refused, in every number domain and for every table *)
Theorem unknown_time_unit_refused : forall (T : Type) (ops : numops T) tu yu year (t : T) u,
  d_mem_sn tu u = false -> convert_decay_time ops tu yu year t u = Raise ValueError.
Proof. exact Proofs.Units.unknown_time_unit_refused. Qed.

(* decaying a lone radionuclide for its half-life leaves half of it: exp(-(ln2/T) T) = 1/2 *)
Theorem halving : forall T : R, T > 0 -> exp (- (ln 2 / T) * T) = 1 / 2.
Proof. exact Proofs.Units.halving. Qed.
