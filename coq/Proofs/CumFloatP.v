(* C03 (second part, e): the forward-error bound of the double-precision cumulative_decays for ALL inputs -
   the weighted rounded-evaluation theorem and the refinement of Proofs/CumRoundP.v, the stored integrated
   exponentials, and the stored data (Proofs/CumDataP.v) put together; the shipped data set. *)
From Coq Require Import Reals ZArith NArith QArith Qreals List Bool Lia Lra Arith Psatz.
From Coq Require Import PrimFloat FloatOps SpecFloat FloatAxioms.
From Flocq Require Import Core.Core IEEE754.BinarySingleNaN IEEE754.PrimFloat.
From Bignums Require Import BigQ.
From RD Require Import Base Model.DecayR Lib.Sparse Lib.CertQ Model.Dataset Model.Default Model.Rounding Model.Rounding64
  Model.FloatDecay Model.FloatCum Model.FloatData Model.RoundCert Model.CumData.
From RD Require Import Proofs.FloatDecayAux.
From RD Require Proofs.DatasetCert Proofs.FloatDataP Proofs.Rounding64P Proofs.RoundingP Proofs.DecayEnclosure
  Proofs.FloatDecayLam Proofs.DefaultWf Proofs.CertDefault.FloatDataCert Proofs.CertDefault.RoundCert
  Proofs.CertDefault.CumCert Proofs.CumRoundP Proofs.CumDataP Proofs.FloatDecayP.
Import ListNotations.
Local Open Scope R_scope.

Definition u64_nonneg := FloatDecayP.u64_nonneg.
Definition eta64_nonneg := FloatDecayP.eta64_nonneg.
Definition Wr := CumDataP.Wr.

(* ---------- small real-number facts *)
Lemma u64_val : u64 = / 9007199254740992.
Proof. exact FloatDecayP.u64_val. Qed.

Lemma u64_small : u64 <= 1 / 10 ^ 8.
Proof. rewrite u64_val. lra. Qed.

Lemma Rabs_bounds : forall x y r, Rabs (x - y) <= r -> y - r <= x <= y + r.
Proof.
  intros x y r H. pose proof (Rle_abs (x - y)) as H1. pose proof (Rle_abs (- (x - y))) as H2.
  rewrite Rabs_Ropp in H2. lra.
Qed.

Lemma div_le_div : forall a a' b b', 0 <= a <= a' -> 0 < b' <= b -> a / b <= a' / b'.
Proof.
  intros a a' b b' Ha Hb. unfold Rdiv.
  apply Rmult_le_compat; [lra| |lra|].
  - left. apply Rinv_0_lt_compat. lra.
  - apply Rinv_le_contravar; lra.
Qed.

Lemma mul_le_mul : forall a a' b b', 0 <= a <= a' -> 0 <= b <= b' -> a * b <= a' * b'.
Proof. intros a a' b b' Ha Hb. apply Rmult_le_compat; lra. Qed.

(* the slack: all the factors close to 1 fit into 1 + 1/10^6 *)
Lemma slack_arith : forall u ue c kp ic q G Kk Bb,
  0 <= u <= 1 / 10 ^ 8 -> 0 <= ue <= 1 / 10 ^ 8 -> 0 <= c <= 1 / 10 ^ 8 ->
  0 <= kp <= 1 + 3 / 10 ^ 8 -> 0 <= ic <= 1 + 2 / 10 ^ 8 -> 0 <= q <= u * (1 + 2 / 10 ^ 8) ->
  0 <= G -> 0 <= Kk -> 0 <= Bb ->
  G * ((1 + u) * ((1 + ue) * kp * q)) + Kk * ((1 + u) * (kp * ue)) + Kk * (c * ic * kp + c * (ic * ic)) + Bb
  + Kk * (u * kp)
  <= (1 + 1 / 10 ^ 6) * (G * u + Kk * ue + Kk * u + Bb + 2 * Kk * c).
Proof.
  intros u ue c kp ic q G Kk Bb Hu Hue Hc Hkp Hic Hq HG HK HB.
  assert (A1 : (1 + ue) * kp <= 1 + 5 / 10 ^ 8).
  { eapply Rle_trans; [apply (mul_le_mul (1 + ue) (1 + 1 / 10 ^ 8) kp (1 + 3 / 10 ^ 8)); lra|]. lra. }
  assert (A1p : 0 <= (1 + ue) * kp) by (apply Rmult_le_pos; lra).
  assert (A2 : (1 + ue) * kp * q <= (1 + 8 / 10 ^ 8) * u).
  { eapply Rle_trans; [apply (mul_le_mul ((1 + ue) * kp) (1 + 5 / 10 ^ 8) q (u * (1 + 2 / 10 ^ 8))); lra|]. nra. }
  assert (A2p : 0 <= (1 + ue) * kp * q) by (apply Rmult_le_pos; lra).
  assert (E1 : (1 + u) * ((1 + ue) * kp * q) <= (1 + 1 / 10 ^ 6) * u).
  { eapply Rle_trans; [apply (mul_le_mul (1 + u) (1 + 1 / 10 ^ 8) ((1 + ue) * kp * q) ((1 + 8 / 10 ^ 8) * u)); lra|]. nra. }
  assert (B1 : kp * ue <= (1 + 3 / 10 ^ 8) * ue) by (apply Rmult_le_compat_r; lra).
  assert (B1p : 0 <= kp * ue) by (apply Rmult_le_pos; lra).
  assert (E2 : (1 + u) * (kp * ue) <= (1 + 1 / 10 ^ 6) * ue).
  { eapply Rle_trans; [apply (mul_le_mul (1 + u) (1 + 1 / 10 ^ 8) (kp * ue) ((1 + 3 / 10 ^ 8) * ue)); lra|]. nra. }
  assert (C1 : ic * kp <= 1 + 6 / 10 ^ 8).
  { eapply Rle_trans; [apply (mul_le_mul ic (1 + 2 / 10 ^ 8) kp (1 + 3 / 10 ^ 8)); lra|]. lra. }
  assert (C1p : 0 <= ic * kp) by (apply Rmult_le_pos; lra).
  assert (C2 : ic * ic <= 1 + 5 / 10 ^ 8).
  { eapply Rle_trans; [apply (mul_le_mul ic (1 + 2 / 10 ^ 8) ic (1 + 2 / 10 ^ 8)); lra|]. lra. }
  assert (E3 : c * ic * kp + c * (ic * ic) <= (1 + 1 / 10 ^ 6) * (2 * c)).
  { replace (c * ic * kp) with (c * (ic * kp)) by ring.
    assert (c * (ic * kp) <= c * (1 + 6 / 10 ^ 8)) by (apply Rmult_le_compat_l; lra).
    assert (c * (ic * ic) <= c * (1 + 5 / 10 ^ 8)) by (apply Rmult_le_compat_l; lra).
    lra. }
  assert (E4 : u * kp <= (1 + 1 / 10 ^ 6) * u).
  { rewrite (Rmult_comm u kp). apply Rmult_le_compat_r; lra. }
  pose proof (Rmult_le_compat_l G _ _ HG E1) as F1.
  pose proof (Rmult_le_compat_l Kk _ _ HK E2) as F2.
  pose proof (Rmult_le_compat_l Kk _ _ HK E3) as F3.
  pose proof (Rmult_le_compat_l Kk _ _ HK E4) as F4.
  lra.
Qed.

(* ---------- the scaled matrix: soundness of G_cum *)
Lemma length_scale_row_w : forall mus i r, length (scale_row_w mus i r) = length r.
Proof. intros mus i r. unfold scale_row_w. apply map_length. Qed.

Lemma ops_scale_row_w : forall Ai mus i r,
  ops_per_term_of Ai (scale_row_w mus i r) = ops_per_term_of Ai r.
Proof.
  intros Ai mus i r. unfold ops_per_term_of, mpat_len_of.
  rewrite length_scale_row_w, CumDataP.cols_scale_row_w. reflexivity.
Qed.

Lemma row_max_gen_sound : forall n (A Ai : mat bq) i j,
  (forall k, In k (cols bq (mrow bq A i)) -> (N.to_nat k < n)%nat) ->
  sumn n (fun k => Rabs (bent A i k * bent Ai k j)) <= bqv (row_max Ai zero_mat (mrow bq A i) []).
Proof.
  intros n A Ai i j HA. unfold ent.
  apply Rle_trans with (bqv (bget (term_list Ai zero_mat (mrow bq A i) []) (N.of_nat j))).
  - rewrite (FloatDataP.term_list_sound Ai zero_mat (mrow bq A i) [] n (N.of_nat j)).
    + right. apply sumn_ext. intros k Hk. unfold zero_mat.
      rewrite FloatDataP.mrow_nil, !DatasetCert.bget_nil, bqv_0. f_equal. ring.
    + exact HA.
    + intros k [].
  - apply FloatDataP.row_max_ge.
Qed.

Lemma G_cum_sound : forall d, mat_in_range bq (nN d) (Cfq d) = true ->
  forall i j, (i < nn d)%nat ->
  INR (ops_row d i) * sumn (nn d) (fun k => Rabs (Wr d i k * Cfr d i k * Cifr d k j)) <= bqv (G_cum d).
Proof.
  intros d HA i j Hi.
  pose proof (mat_in_range_len bq _ _ HA) as LA. rewrite DatasetCert.nN_nn in LA.
  rewrite (sumn_ext _ _ (fun k => Rabs (bent (Cfw d) i k * bent (Cifq d) k j))).
  2:{ intros k Hk. rewrite CumDataP.Cfw_ent. reflexivity. }
  apply Rle_trans with (bqv (round_weight_of (Cifq d) (mrow bq (Cfw d) i))).
  - unfold round_weight_of. rewrite bqv_mul, bqv_of_nat.
    replace (ops_per_term_of (Cifq d) (mrow bq (Cfw d) i)) with (ops_row d i).
    2:{ unfold ops_row, Cfw. cbv zeta. rewrite CumDataP.mrow_scale_rows, ops_scale_row_w. reflexivity. }
    apply Rmult_le_compat_l; [apply pos_INR|].
    apply row_max_gen_sound.
    intros k Hk. rewrite <- (DatasetCert.nN_nn d). unfold Cfw in Hk. cbv zeta in Hk.
    apply (CumDataP.scaled_cols_range _ _ _ _ _ HA Hk).
  - unfold G_cum, G_round_of. cbv zeta. apply FloatDataP.fold_max_ge_in. apply in_map.
    unfold mrow. apply nth_In. unfold Cfw. cbv zeta. rewrite CumDataP.length_scale_rows, LA. exact Hi.
Qed.

Lemma chk_cum_G : forall d Bc Kc Gc, chk_cum d Bc Kc Gc = true -> bqv (G_cum d) <= bqv Gc.
Proof.
  intros d Bc Kc Gc H. unfold chk_cum in H. apply andb_prop in H. destruct H as [_ H].
  apply FloatDataP.bq_leb_spec. exact H.
Qed.

Lemma stable_mur : forall d k, stableb d k = true -> mur d k = 0.
Proof. intros d k H. unfold stableb in H. unfold mur. apply bq_is_zero_spec. exact H. Qed.
Lemma radio_mur : forall d k, stableb d k = false -> mur d k <> 0.
Proof. intros d k H. unfold stableb in H. unfold mur. apply bq_is_zero_false. exact H. Qed.

Lemma inv_1m : forall x, 0 <= x <= 1 / 10 ^ 8 -> 1 <= / (1 - x) <= 1 + 2 / 10 ^ 8.
Proof.
  intros x Hx. split.
  - rewrite <- Rinv_1 at 1. apply Rinv_le_contravar; lra.
  - apply Rmult_le_reg_r with (1 - x); [lra|]. rewrite Rinv_l by lra. lra.
Qed.

Lemma abs3 : forall w a b, 0 <= w -> Rabs (w * a * b) = w * (Rabs a * Rabs b).
Proof. intros w a b Hw. rewrite !Rabs_mult, (Rabs_right w) by lra. ring. Qed.

Section Main.
  Variables (d : dataset) (B K Gb Hb : bq) (mb : nat) (Bc Kc Gc : bq) (c ue Lmax : R).
  Hypothesis Hwf : wf_core d = true.
  Hypothesis Hfd : chk_float_data d B K = true.
  Hypothesis Hrd : chk_round d Gb Hb mb = true.
  Hypothesis Hcu : chk_cum d Bc Kc Gc = true.
  Hypothesis Hc : 0 <= c <= 1 / 10 ^ 8.
  Hypothesis Hue : 0 <= ue <= 1 / 10 ^ 8.
  Hypothesis Hmb : INR mb * u64 <= 1 / 10 ^ 8.
  Hypothesis HLmax : 0 <= Lmax.
  Variables (e n0 : frow) (i : N) (ce mo : list N) (lam_i : float) (t : R) (lamf : nat -> R).
  Hypothesis Hok : orders_okb_cum (ds_cf d) (ds_cif d) e n0 i ce mo = true.
  Hypothesis Hfin : ffin (pf_cum (ds_cf d) (ds_cif d) e n0 i ce mo lam_i) = true.
  Hypothesis Ht : 0 <= t.
  Let n0f := fun j : nat => fval (fget n0 (N.of_nat j)).
  Let Ef := fun k : nat => fval (fget e (N.of_nat k)).
  Hypothesis Hn0 : forall j, 0 <= n0f j.
  Hypothesis Hlam : forall k, (k < nn d)%nat -> Rabs (lamf k - lam (mur d) k) <= c * lam (mur d) k.
  Hypothesis HLm : forall k, (k < nn d)%nat -> lamf k <= Lmax.
  Hypothesis Hli : fval lam_i = lamf (N.to_nat i).
  Hypothesis Hrad : stableb d (N.to_nat i) = false.
  Hypothesis HE1 : forall k, (k < nn d)%nat -> Ef k = 0 \/
      (mur d k <> 0 /\ Rabs (Ef k - (1 - exp (- lamf k * t)) / lamf k) <= ue / lamf k).
  Hypothesis HE2 : forall k, (k < nn d)%nat -> (exists j, (j < nn d)%nat /\ Cifr d k j * n0f j <> 0) -> mur d k <> 0 ->
      Rabs (Ef k - (1 - exp (- lamf k * t)) / lamf k) <= ue / lamf k.

  Let n := nn d.
  Let ii := N.to_nat i.
  Let Cff := fun a b : nat => fval (fget (frow_of (ds_cf d) (N.of_nat a)) (N.of_nat b)).
  Let Ciff := fun a b : nat => fval (fget (frow_of (ds_cif d) (N.of_nat a)) (N.of_nat b)).
  Let ks := fun (_ j : nat) => map N.to_nat (pf_ks (ds_cif d) ce (N.of_nat j)).
  Let js := fun _ : nat => map N.to_nat mo.
  Let yh := yhat rnd64 Cff Ciff Ef n0f ks js ii.
  Let L := length (frow_of (ds_cf d) i).
  Let L' := length (nodup N.eq_dec (flat_map (fun k => fcols (frow_of (ds_cif d) k)) (fcols (frow_of (ds_cf d) i)))).
  Let mi := (L + L' + 3)%nat.
  Let N1 := sumn n n0f.
  Let wf := fun k : nat => sumn n (fun j => Cifr d k j * n0f j).
  Let q := u64 / (1 - INR mb * u64).
  Let lm := lam (mur d).
  Let kp := (1 + c) / (1 - c).
  Let ic := / (1 - c).

  Let HCf : mat_in_range bq (nN d) (Cfq d) = true.
  Proof. apply (FloatDataP.chk_float_data_parts d B K Hfd). Qed.
  Let HCif : mat_in_range bq (nN d) (Cifq d) = true.
  Proof. apply (FloatDataP.chk_float_data_parts d B K Hfd). Qed.
  Let NDcf : rows_nodup (ds_cf d) = true.
  Proof. apply (chk_round_parts d Gb Hb mb Hrd). Qed.
  Let NDcif : rows_nodup (ds_cif d) = true.
  Proof. apply (chk_round_parts d Gb Hb mb Hrd). Qed.
  Let HH : bqv (H_col d) <= bqv Hb.
  Proof. apply (chk_round_parts d Gb Hb mb Hrd). Qed.
  Let Hmo : (max_ops d <= mb)%nat.
  Proof. apply (chk_round_parts d Gb Hb mb Hrd). Qed.
  Let HKc : bqv (K_cum d) <= bqv Kc.
  Proof. apply (CumDataP.chk_cum_parts d Bc Kc Gc Hcu). Qed.
  Let HGc : bqv (G_cum d) <= bqv Gc.
  Proof. apply (chk_cum_G d Bc Kc Gc Hcu). Qed.
  Let Hc1 : 0 <= c < 1.
  Proof. lra. Qed.
  Let Hmb1 : INR mb * u64 < 1.
  Proof. lra. Qed.

  Lemma ii_lt : (ii < n)%nat.
  Proof.
    destruct (CumRoundP.okc_parts _ _ _ _ _ _ _ Hok) as [H _].
    rewrite (len_cf d HCf) in H. unfold ii, n. lia.
  Qed.

  Lemma Cff_eq : forall a b, Cff a b = Cfr d a b.
  Proof. intros a b. unfold Cff, Cfr, Cfq. apply bent_fget. exact NDcf. Qed.
  Lemma Ciff_eq : forall a b, Ciff a b = Cifr d a b.
  Proof. intros a b. unfold Ciff, Cifr, Cifq. apply bent_fget. exact NDcif. Qed.

  Lemma N1_nonneg : 0 <= N1.
  Proof. unfold N1. apply RoundingP.sumn_nonneg. intros; apply Hn0. Qed.

  Lemma mi_ops : mi = ops_row d ii.
  Proof. unfold mi, L, L', ii. symmetry. apply ops_row_eq. Qed.
  Lemma mi_le : (mi <= mb)%nat.
  Proof. rewrite mi_ops. eapply Nat.le_trans; [apply (max_ops_sound d HCf); apply ii_lt|exact Hmo]. Qed.
  Lemma L_le : (L <= mb)%nat.
  Proof. pose proof mi_le. unfold mi in *. lia. Qed.
  Lemma L'_le : (L' <= mb)%nat.
  Proof. pose proof mi_le. unfold mi in *. lia. Qed.

  (* ---------- the decay constants *)
  Lemma lm_nonneg : forall k, (k < n)%nat -> 0 <= lm k.
  Proof. intros k Hk. apply (FloatDecayP.lam_nonneg d Hwf k Hk). Qed.
  Lemma lm_stable : forall k, stableb d k = true -> lm k = 0.
  Proof. intros k Hs. unfold lm, lam. rewrite (stable_mur d k Hs). ring. Qed.
  Lemma lm_pos : forall k, (k < n)%nat -> stableb d k = false -> 0 < lm k.
  Proof. intros k Hk Hs. apply (CumDataP.lam_pos_radio d Hwf k Hk Hs). Qed.
  Lemma lamf_bounds : forall k, (k < n)%nat -> (1 - c) * lm k <= lamf k <= (1 + c) * lm k.
  Proof. intros k Hk. pose proof (Rabs_bounds _ _ _ (Hlam k Hk)) as H. fold lm in H. lra. Qed.
  Lemma lamf_stable : forall k, (k < n)%nat -> stableb d k = true -> lamf k = 0.
  Proof. intros k Hk Hs. pose proof (lamf_bounds k Hk) as H. rewrite (lm_stable k Hs) in H. lra. Qed.
  Lemma lamf_pos : forall k, (k < n)%nat -> stableb d k = false -> 0 < lamf k.
  Proof.
    intros k Hk Hs. pose proof (lamf_bounds k Hk) as H. pose proof (lm_pos k Hk Hs) as H1.
    assert (0 < (1 - c) * lm k) by (apply Rmult_lt_0_compat; lra). lra.
  Qed.
  Lemma lamf_nonneg : forall k, (k < n)%nat -> 0 <= lamf k.
  Proof.
    intros k Hk. pose proof (lamf_bounds k Hk) as H. pose proof (lm_nonneg k Hk) as H1.
    assert (0 <= (1 - c) * lm k) by (apply Rmult_le_pos; lra). lra.
  Qed.
  Lemma lamfi_pos : 0 < lamf ii.
  Proof. apply lamf_pos; [apply ii_lt|exact Hrad]. Qed.

  Lemma ic_range : 1 <= ic <= 1 + 2 / 10 ^ 8.
  Proof. unfold ic. apply inv_1m. exact Hc. Qed.
  Lemma kp_range : 0 <= kp <= 1 + 3 / 10 ^ 8.
  Proof.
    unfold kp. split.
    - apply Rmult_le_pos; [lra|]. left. apply Rinv_0_lt_compat. lra.
    - apply Rmult_le_reg_r with (1 - c); [lra|]. unfold Rdiv. rewrite Rmult_assoc, Rinv_l by lra. lra.
  Qed.
  Lemma q_range : 0 <= q <= u64 * (1 + 2 / 10 ^ 8).
  Proof.
    pose proof u64_nonneg as Hu. pose proof (pos_INR mb) as Hm.
    assert (Hx : 0 <= INR mb * u64 <= 1 / 10 ^ 8) by (split; [apply Rmult_le_pos; assumption|exact Hmb]).
    pose proof (inv_1m _ Hx) as H. unfold q, Rdiv. split.
    - apply Rmult_le_pos; lra.
    - apply Rmult_le_compat_l; lra.
  Qed.

  (* lamf_i / lamf_k, the weight that moves the factor lamf_i onto the diagonal *)
  Let rho := fun k : nat => if stableb d k then 0 else lamf ii / lamf k.

  Lemma rho_nonneg : forall k, (k < n)%nat -> 0 <= rho k.
  Proof.
    intros k Hk. unfold rho. destruct (stableb d k) eqn:Es; [lra|].
    pose proof (lamf_pos k Hk Es). pose proof lamfi_pos.
    apply Rmult_le_pos; [lra|]. left. apply Rinv_0_lt_compat. assumption.
  Qed.

  Lemma rho_le : forall k, (k < n)%nat -> rho k <= kp * Wr d ii k.
  Proof.
    intros k Hk. unfold rho, Wr. destruct (stableb d k) eqn:Es.
    - rewrite (CumDataP.Wr_stable d ii k Es). lra.
    - destruct (CumDataP.Wr_radio d ii k Es) as [Hne EW]. rewrite EW.
      pose proof (lamf_bounds k Hk) as H1. pose proof (lamf_bounds ii ii_lt) as H2.
      pose proof (lm_pos k Hk Es) as H3. pose proof lamfi_pos as H4.
      assert (H5 : 0 < (1 - c) * lm k) by (apply Rmult_lt_0_compat; lra).
      eapply Rle_trans; [apply (div_le_div (lamf ii) ((1 + c) * lm ii) (lamf k) ((1 - c) * lm k)); lra|].
      right. unfold kp, lm, lam. field. pose proof CumDataP.ln2_pos. repeat split; lra.
  Qed.

  Lemma rho_move : forall k x, (k < n)%nat -> (stableb d k = true -> x = 0) -> lamf ii * x = rho k * (lamf k * x).
  Proof.
    intros k x Hk Hx. unfold rho. destruct (stableb d k) eqn:Es.
    - rewrite (Hx eq_refl). ring.
    - pose proof (lamf_pos k Hk Es). field. lra.
  Qed.

  (* ---------- the exact integrated exponentials of the float decay constants *)
  Let Estar := fun k : nat => EcumP (stableb d k) (lamf k) t.

  Lemma Estar_stable : forall k, stableb d k = true -> Estar k = 0.
  Proof. intros k Es. unfold Estar, EcumP. rewrite Es. reflexivity. Qed.
  Lemma Estar_radio : forall k, stableb d k = false -> Estar k = (1 - exp (- lamf k * t)) / lamf k.
  Proof. intros k Es. unfold Estar, EcumP. rewrite Es. reflexivity. Qed.

  Lemma expm_range : forall k, (k < n)%nat -> 0 <= 1 - exp (- lamf k * t) <= 1.
  Proof.
    intros k Hk. pose proof (lamf_nonneg k Hk) as H.
    replace (- lamf k * t) with (- (lamf k * t)) by ring.
    assert (Ha : 0 <= lamf k * t) by (apply Rmult_le_pos; lra).
    pose proof (FloatDataP.one_minus_exp _ Ha). pose proof (exp_pos (- (lamf k * t))). lra.
  Qed.

  Lemma lamE_range : forall k, (k < n)%nat -> Rabs (lamf k * Estar k) <= 1.
  Proof.
    intros k Hk. destruct (stableb d k) eqn:Es.
    - rewrite (Estar_stable k Es), Rmult_0_r, Rabs_R0. lra.
    - rewrite (Estar_radio k Es). pose proof (lamf_pos k Hk Es) as Hl.
      replace (lamf k * ((1 - exp (- lamf k * t)) / lamf k)) with (1 - exp (- lamf k * t)) by (field; lra).
      pose proof (expm_range k Hk). rewrite Rabs_right; lra.
  Qed.

  (* ---------- the float model *)
  Lemma refine_facts :
    fval (pf_cum (ds_cf d) (ds_cif d) e n0 i ce mo lam_i) = rnd64 (lamf ii * yh) /\
    orders_ok rnd64 n Cff Ciff Ef n0f ks js ii /\
    (forall k, (k < n)%nat -> 0 <= Ef k) /\
    (forall j, (j < n)%nat -> (length (ks ii j) <= L)%nat) /\ (length (js ii) <= L')%nat.
  Proof.
    pose proof (CumRoundP.pf_cum_refines _ _ _ _ _ _ _ lam_i Hok Hfin) as P. cbv zeta in P.
    destruct P as (V & _ & Ord & HEf & Hks & Hjs).
    rewrite (len_cf d HCf) in Ord, HEf, Hks. rewrite Hli in V.
    split; [exact V|]. split; [exact Ord|]. split; [exact HEf|]. split; [exact Hks|exact Hjs].
  Qed.

  Let beta := fun k : nat => if stableb d k then 0 else (1 + ue) / lamf k.

  Lemma Ef_range : forall k, (k < n)%nat -> 0 <= Ef k <= beta k.
  Proof.
    intros k Hk. destruct refine_facts as (_ & _ & HEf & _). split; [apply (HEf k Hk)|].
    unfold beta. destruct (HE1 k Hk) as [E0|[Hne HB]].
    - rewrite E0. destruct (stableb d k) eqn:Es; [lra|].
      pose proof (lamf_pos k Hk Es). apply Rmult_le_pos; [lra|]. left. apply Rinv_0_lt_compat. assumption.
    - destruct (stableb d k) eqn:Es; [exfalso; apply Hne; apply (stable_mur d k Es)|].
      pose proof (lamf_pos k Hk Es) as Hl. pose proof (expm_range k Hk) as Hx.
      pose proof (Rabs_bounds _ _ _ HB) as [_ H].
      eapply Rle_trans; [exact H|]. unfold Rdiv. rewrite <- Rmult_plus_distr_r.
      apply Rmult_le_compat_r; [left; apply Rinv_0_lt_compat; exact Hl|lra].
  Qed.

  Lemma lam_beta : forall k, (k < n)%nat -> lamf ii * beta k = (1 + ue) * rho k.
  Proof.
    intros k Hk. unfold beta, rho. destruct (stableb d k) eqn:Es; [ring|].
    pose proof (lamf_pos k Hk Es). field. lra.
  Qed.

  (* ---------- rounding *)
  Let inner := fun j : nat => sumn n (fun k => Rabs (Cff ii k) * beta k * Rabs (Ciff k j)).
  Let Sb := sumn n (fun j => inner j * Rabs (n0f j)).
  Let etat := eta64 * (1 + u64) ^ mi *
         (sumn n (fun j => (sumn n (fun k => Rabs (Ciff k j)) + 2 * INR L) * Rabs (n0f j)) + 2 * INR L').
  Let etaT := eta64 * (1 + u64) ^ mb * ((bqv Hb + 2 * INR mb) * N1 + 2 * INR mb).

  Lemma round_part : Rabs (yh - Yexact n Cff Ciff Ef n0f ii) <= gam u64 mi * Sb + etat.
  Proof.
    destruct refine_facts as (_ & Ord & _ & Hks & Hjs).
    exact (CumRoundP.decay_eval_error_w rnd64 u64 eta64 Rounding64P.rnd64_std_model n Cff Ciff Ef n0f ks js ii L L' beta
             Ef_range Ord Hks Hjs).
  Qed.

  Let SW := fun j : nat => sumn n (fun k => Rabs (Wr d ii k * Cfr d ii k * Cifr d k j)).

  Lemma SW_K : forall j, SW j <= bqv Kc.
  Proof. intro j. eapply Rle_trans; [apply (CumDataP.K_cum_sound d HCf ii j ii_lt)|exact HKc]. Qed.
  Lemma SW_G : forall j, INR mi * SW j <= bqv Gc.
  Proof. intro j. rewrite mi_ops. eapply Rle_trans; [apply (G_cum_sound d HCf ii j ii_lt)|exact HGc]. Qed.
  Lemma SW_nonneg : forall j, 0 <= SW j.
  Proof. intro j. apply RoundingP.sumn_nonneg. intros; apply Rabs_pos. Qed.
  Lemma Kc_nonneg : 0 <= bqv Kc.
  Proof. eapply Rle_trans; [apply (SW_nonneg O)|apply SW_K]. Qed.
  Lemma Gc_nonneg : 0 <= bqv Gc.
  Proof.
    eapply Rle_trans; [|apply (SW_G O)]. apply Rmult_le_pos; [apply pos_INR|apply SW_nonneg].
  Qed.

  Lemma rho_term : forall k j, (k < n)%nat ->
    rho k * (Rabs (Cfr d ii k) * Rabs (Cifr d k j)) <= kp * Rabs (Wr d ii k * Cfr d ii k * Cifr d k j).
  Proof.
    intros k j Hk. rewrite abs3 by (apply (CumDataP.Wr_nonneg d Hwf ii k ii_lt Hk)).
    rewrite <- (Rmult_assoc kp). apply Rmult_le_compat_r; [|apply rho_le; exact Hk].
    apply Rmult_le_pos; apply Rabs_pos.
  Qed.

  Lemma SWrho : forall j, sumn n (fun k => Rabs (rho k * Cfr d ii k * Cifr d k j)) <= kp * bqv Kc.
  Proof.
    intro j. apply Rle_trans with (kp * SW j).
    - unfold SW. rewrite <- sumn_scal. apply FloatDataP.sumn_le. intros k Hk.
      rewrite abs3 by (apply rho_nonneg; exact Hk). apply rho_term. exact Hk.
    - apply Rmult_le_compat_l; [apply kp_range|apply SW_K].
  Qed.

  Lemma inner_bound : forall j, lamf ii * inner j <= (1 + ue) * kp * SW j.
  Proof.
    intro j. unfold inner, SW. rewrite <- !sumn_scal. apply FloatDataP.sumn_le. intros k Hk.
    rewrite Cff_eq, Ciff_eq.
    replace (lamf ii * (Rabs (Cfr d ii k) * beta k * Rabs (Cifr d k j)))
      with ((lamf ii * beta k) * (Rabs (Cfr d ii k) * Rabs (Cifr d k j))) by ring.
    rewrite (lam_beta k Hk). rewrite (Rmult_assoc (1 + ue) (rho k)), (Rmult_assoc (1 + ue) kp).
    apply Rmult_le_compat_l; [lra|].
    apply rho_term. exact Hk.
  Qed.

  Lemma inner_nonneg : forall j, 0 <= inner j.
  Proof.
    intro j. unfold inner. apply RoundingP.sumn_nonneg. intros k Hk.
    apply Rmult_le_pos; [apply Rmult_le_pos|]; try apply Rabs_pos. pose proof (Ef_range k Hk). lra.
  Qed.

  Lemma T2a : lamf ii * (gam u64 mi * Sb) <= bqv Gc * ((1 + ue) * kp * q) * N1.
  Proof.
    pose proof lamfi_pos as Hl. pose proof kp_range as Hk. pose proof q_range as Hq.
    set (Sb2 := sumn n (fun j => (lamf ii * inner j) * n0f j)).
    assert (E : lamf ii * Sb = Sb2).
    { unfold Sb, Sb2. rewrite <- sumn_scal. apply sumn_ext. intros j _.
      rewrite (Rabs_right (n0f j)) by (apply Rle_ge, Hn0). ring. }
    assert (H0 : 0 <= Sb2).
    { apply RoundingP.sumn_nonneg. intros j _. apply Rmult_le_pos; [|apply Hn0].
      apply Rmult_le_pos; [lra|apply inner_nonneg]. }
    assert (H1 : INR mi * Sb2 <= ((1 + ue) * kp * bqv Gc) * N1).
    { unfold Sb2, N1. rewrite <- !sumn_scal. apply FloatDataP.sumn_le. intros j Hj.
      rewrite <- Rmult_assoc. apply Rmult_le_compat_r; [apply Hn0|].
      apply Rle_trans with (INR mi * ((1 + ue) * kp * SW j)).
      - apply Rmult_le_compat_l; [apply pos_INR|apply inner_bound].
      - replace (INR mi * ((1 + ue) * kp * SW j)) with ((1 + ue) * kp * (INR mi * SW j)) by ring.
        apply Rmult_le_compat_l; [apply Rmult_le_pos; lra|apply SW_G]. }
    pose proof (gam_le_mb u64 mi mb u64_nonneg mi_le Hmb1) as Hg. fold q in Hg.
    replace (lamf ii * (gam u64 mi * Sb)) with (gam u64 mi * (lamf ii * Sb)) by ring. rewrite E.
    apply Rle_trans with (INR mi * q * Sb2); [apply Rmult_le_compat_r; assumption|].
    replace (INR mi * q * Sb2) with (q * (INR mi * Sb2)) by ring.
    replace (bqv Gc * ((1 + ue) * kp * q) * N1) with (q * ((1 + ue) * kp * bqv Gc * N1)) by ring.
    apply Rmult_le_compat_l; [lra|exact H1].
  Qed.

  Lemma etat_nonneg : 0 <= etat.
  Proof.
    unfold etat. pose proof u64_nonneg. pose proof eta64_nonneg.
    apply Rmult_le_pos; [apply Rmult_le_pos; [assumption|apply pow_le; lra]|].
    apply Rplus_le_le_0_compat; [|pose proof (pos_INR L'); lra].
    apply RoundingP.sumn_nonneg. intros j _. apply Rmult_le_pos; [|apply Rabs_pos].
    apply Rplus_le_le_0_compat; [|pose proof (pos_INR L); lra]. apply RoundingP.sumn_nonneg. intros; apply Rabs_pos.
  Qed.

  Lemma etat_le : etat <= etaT.
  Proof.
    unfold etat, etaT.
    pose proof u64_nonneg as Hu. pose proof eta64_nonneg as Het.
    assert (HL : INR L <= INR mb) by (apply le_INR, L_le).
    assert (HL' : INR L' <= INR mb) by (apply le_INR, L'_le).
    pose proof (pos_INR L) as HL0. pose proof (pos_INR L') as HL'0.
    assert (HS2 : sumn n (fun j => (sumn n (fun k => Rabs (Ciff k j)) + 2 * INR L) * Rabs (n0f j))
                  <= (bqv Hb + 2 * INR mb) * N1).
    { unfold N1. rewrite <- sumn_scal. apply FloatDataP.sumn_le. intros j Hj.
      rewrite (Rabs_right (n0f j)) by (apply Rle_ge, Hn0).
      apply Rmult_le_compat_r; [apply Hn0|].
      assert (Hcs : sumn n (fun k => Rabs (Ciff k j)) <= bqv Hb).
      { rewrite (sumn_ext n _ (fun k => Rabs (Cifr d k j))) by (intros k _; rewrite Ciff_eq; reflexivity).
        eapply Rle_trans; [apply (H_col_sound d HCif NDcif j)|exact HH]. }
      lra. }
    assert (HS2' : 0 <= sumn n (fun j => (sumn n (fun k => Rabs (Ciff k j)) + 2 * INR L) * Rabs (n0f j))).
    { apply RoundingP.sumn_nonneg. intros j _. apply Rmult_le_pos; [|apply Rabs_pos].
      apply Rplus_le_le_0_compat; [|lra]. apply RoundingP.sumn_nonneg. intros; apply Rabs_pos. }
    apply Rmult_le_compat.
    - apply Rmult_le_pos; [exact Het|]. apply pow_le. lra.
    - lra.
    - apply Rmult_le_compat_l; [exact Het|]. apply RoundingP.pow1u_mono; [exact Hu|apply mi_le].
    - lra.
  Qed.

  (* ---------- the stored integrated exponentials *)
  Let ak := fun k : nat => sumn n (fun j => Rabs (Cifr d k j * n0f j)).
  Let Ef' := fun k : nat => if Req_EM_T (ak k) 0 then Estar k else Ef k.
  Let Y1 := sumn n (fun k => Cfr d ii k * (Ef' k * wf k)).
  Let Y2 := sumn n (fun k => Cfr d ii k * (Estar k * wf k)).

  Lemma Yexact_eq : Yexact n Cff Ciff Ef n0f ii = Y1.
  Proof.
    rewrite Yexact_swap. unfold Y1. apply sumn_ext. intros k Hk. rewrite Cff_eq.
    rewrite (sumn_ext n (fun j => Ciff k j * n0f j) (fun j => Cifr d k j * n0f j))
      by (intros j _; rewrite Ciff_eq; reflexivity).
    fold (wf k). unfold Ef'. destruct (Req_EM_T (ak k) 0) as [E|E]; [|reflexivity].
    assert (Hw : wf k = 0).
    { unfold wf. apply sumn_zero. intros j Hj. apply (sumn_abs_zero n _ E j Hj). }
    rewrite Hw. ring.
  Qed.

  Lemma Ef'_stable : forall k, (k < n)%nat -> stableb d k = true -> Ef' k - Estar k = 0.
  Proof.
    intros k Hk Es. unfold Ef'. destruct (Req_EM_T (ak k) 0) as [E|E]; [ring|].
    rewrite (Estar_stable k Es). destruct (HE1 k Hk) as [E0|[Hne _]]; [rewrite E0; ring|].
    exfalso. apply Hne. apply (stable_mur d k Es).
  Qed.

  Lemma Ef'_close : forall k, (k < n)%nat -> Rabs (lamf k * (Ef' k - Estar k)) <= ue.
  Proof.
    intros k Hk. destruct (stableb d k) eqn:Es.
    - rewrite (Ef'_stable k Hk Es), Rmult_0_r, Rabs_R0. lra.
    - unfold Ef'. destruct (Req_EM_T (ak k) 0) as [E|E].
      + replace (Estar k - Estar k) with 0 by ring. rewrite Rmult_0_r, Rabs_R0. lra.
      + pose proof (lamf_pos k Hk Es) as Hl.
        pose proof (HE2 k Hk (sumn_abs_nonzero n _ E) (radio_mur d k Es)) as H.
        rewrite (Estar_radio k Es). rewrite Rabs_mult, (Rabs_right (lamf k)) by lra.
        apply Rle_trans with (lamf k * (ue / lamf k)); [apply Rmult_le_compat_l; lra|].
        right. field. lra.
  Qed.

  (* lamf_i (sum_k Cf_ik x_k w_k) with |lamf_k x_k| <= M *)
  Lemma rho_diag : forall (x : nat -> R) M,
    (forall k, (k < n)%nat -> stableb d k = true -> x k = 0) ->
    (forall k, (k < n)%nat -> Rabs (lamf k * x k) <= M) ->
    Rabs (lamf ii * sumn n (fun k => Cfr d ii k * (x k * wf k))) <= kp * bqv Kc * M * N1.
  Proof.
    intros x M Hx HM.
    rewrite <- sumn_scal.
    rewrite (sumn_ext _ _ (fun k => (lamf k * x k) * sumn n (fun j => (rho k * Cfr d ii k * Cifr d k j) * n0f j))).
    2:{ intros k Hk.
        rewrite (sumn_ext _ (fun j => (rho k * Cfr d ii k * Cifr d k j) * n0f j)
                   (fun j => (rho k * Cfr d ii k) * (Cifr d k j * n0f j))) by (intros; ring).
        rewrite sumn_scal. fold (wf k).
        transitivity ((lamf ii * x k) * (Cfr d ii k * wf k)); [ring|].
        rewrite (rho_move k (x k) Hk (Hx k Hk)). ring. }
    apply FloatDataP.diag_bound.
    - intros j Hj. apply SWrho.
    - exact HM.
    - exact Hn0.
  Qed.

  Lemma Y12 : Rabs (lamf ii * (Y1 - Y2)) <= kp * bqv Kc * ue * N1.
  Proof.
    unfold Y1, Y2. rewrite <- FloatDataP.sumn_minus.
    rewrite (sumn_ext _ _ (fun k => Cfr d ii k * ((Ef' k - Estar k) * wf k))) by (intros; ring).
    apply (rho_diag (fun k => Ef' k - Estar k) ue Ef'_stable Ef'_close).
  Qed.

  Lemma Y2abs : Rabs (lamf ii * Y2) <= kp * bqv Kc * 1 * N1.
  Proof. unfold Y2. apply (rho_diag Estar 1); [intros k _; apply Estar_stable|exact lamE_range]. Qed.

  (* ---------- the stored decay constants and matrices *)
  Let delta := fun k : nat =>
    if lt_dec k (nn d) then (if Req_EM_T (lam (mur d) k) 0 then 0 else lamf k / lam (mur d) k - 1) else 0.

  Lemma Y2D : Rabs (lm ii * Y2 - Dcum (nn d) (Cr d) (Cir d) (mur d) (stableb d) n0f t ii)
              <= (bqv Bc + bqv Kc * (c * (ic * ic))) * N1.
  Proof.
    pose proof (CumDataP.cum_data_error d B K Bc Kc Gc c Hwf Hfd Hcu Hc1 delta n0f t ii Ht
                  (FloatDecayP.delta_small d c Hwf Hc1 lamf Hlam) Hn0 ii_lt) as H.
    fold n in H. fold N1 in H.
    replace (c * (ic * ic)) with (c / (1 - c) ^ 2) by (unfold ic; field; lra).
    replace (lm ii * Y2) with (lam (mur d) ii * sumn n (fun k => Cfr d ii k *
               (EcumP (stableb d k) (lam (mur d) k * (1 + delta k)) t * sumn n (fun j => Cifr d k j * n0f j)))); [exact H|].
    unfold Y2, lm. f_equal. apply sumn_ext. intros k Hk. unfold Estar, delta.
    rewrite <- (FloatDecayP.lamf_delta d c lamf Hlam k Hk). reflexivity.
  Qed.

  Lemma lam_diff : Rabs ((lamf ii - lm ii) * Y2) <= c * ic * (kp * bqv Kc * N1).
  Proof.
    pose proof (lamf_bounds ii ii_lt) as H1. pose proof (lm_pos ii ii_lt Hrad) as H2.
    pose proof lamfi_pos as H3. pose proof ic_range as H4. pose proof Y2abs as H5.
    rewrite Rabs_mult, (Rabs_right (lamf ii)) in H5 by lra. rewrite Rmult_1_r in H5.
    pose proof (Hlam ii ii_lt) as H6. fold lm in H6.
    assert (H7 : lm ii <= ic * lamf ii).
    { unfold ic. apply Rmult_le_reg_l with (1 - c); [lra|]. rewrite <- Rmult_assoc, Rinv_r by lra. lra. }
    rewrite Rabs_mult.
    apply Rle_trans with (c * (ic * lamf ii) * Rabs Y2).
    - apply Rmult_le_compat_r; [apply Rabs_pos|]. eapply Rle_trans; [exact H6|]. apply Rmult_le_compat_l; lra.
    - replace (c * (ic * lamf ii) * Rabs Y2) with (c * ic * (lamf ii * Rabs Y2)) by ring.
      apply Rmult_le_compat_l; [apply Rmult_le_pos; lra|exact H5].
  Qed.

  (* ---------- together *)
  Theorem cum_float_error_sec :
    Rabs (fval (pf_cum (ds_cf d) (ds_cif d) e n0 i ce mo lam_i)
          - Dcum (nn d) (Cr d) (Cir d) (mur d) (stableb d) n0f t (N.to_nat i))
    <= (1 + 1 / 10 ^ 6) * (bqv Gc * u64 + bqv Kc * ue + bqv Kc * u64 + bqv Bc + 2 * bqv Kc * c) * sumn (nn d) n0f
       + eta64 * (1 + u64) ^ mb * ((bqv Hb + 2 * INR mb) * sumn (nn d) n0f + 2 * INR mb) * (Lmax * (1 + u64)) + eta64.
  Proof.
    pose proof Y2D as R5.
    set (Dx := Dcum (nn d) (Cr d) (Cir d) (mur d) (stableb d) n0f t (N.to_nat i)).
    change (Rabs (lm ii * Y2 - Dx) <= (bqv Bc + bqv Kc * (c * (ic * ic))) * N1) in R5.
    change (sumn (nn d) n0f) with N1. fold etaT.
    destruct refine_facts as (V & _). rewrite V.
    pose proof round_part as R0. rewrite Yexact_eq in R0.
    pose proof T2a as R1. pose proof etat_le as R2. pose proof etat_nonneg as R2'.
    pose proof Y12 as R3. pose proof Y2abs as R4. pose proof lam_diff as R6.
    rewrite Rmult_1_r in R4.
    pose proof lamfi_pos as Hl. pose proof (HLm ii ii_lt) as HlL.
    pose proof u64_nonneg as Hu. pose proof u64_small as Hus. pose proof eta64_nonneg as Het.
    pose proof N1_nonneg as HN.
    set (x := lamf ii * yh).
    set (G1 := bqv Gc * ((1 + ue) * kp * q)) in *.
    (* lamf_i (yh - Y1) *)
    assert (A1 : Rabs (lamf ii * (yh - Y1)) <= G1 * N1 + Lmax * etaT).
    { rewrite Rabs_mult, (Rabs_right (lamf ii)) by lra.
      apply Rle_trans with (lamf ii * (gam u64 mi * Sb + etat)); [apply Rmult_le_compat_l; lra|].
      rewrite Rmult_plus_distr_l. apply Rplus_le_compat; [exact R1|].
      apply Rmult_le_compat; lra. }
    assert (HX : Rabs x <= (G1 * N1 + Lmax * etaT) + kp * bqv Kc * ue * N1 + kp * bqv Kc * N1).
    { replace x with (lamf ii * (yh - Y1) + lamf ii * (Y1 - Y2) + lamf ii * Y2) by (unfold x; ring).
      eapply Rle_trans; [apply Rabs_triang|].
      eapply Rle_trans; [apply Rplus_le_compat_r; apply Rabs_triang|]. lra. }
    assert (HXD : Rabs (x - Dx) <= (G1 * N1 + Lmax * etaT) + kp * bqv Kc * ue * N1
                                   + c * ic * (kp * bqv Kc * N1) + (bqv Bc + bqv Kc * (c * (ic * ic))) * N1).
    { replace (x - Dx) with (lamf ii * (yh - Y1) + lamf ii * (Y1 - Y2) + (lamf ii - lm ii) * Y2 + (lm ii * Y2 - Dx))
        by (unfold x; ring).
      eapply Rle_trans; [apply Rabs_triang|].
      eapply Rle_trans; [apply Rplus_le_compat_r; apply Rabs_triang|].
      eapply Rle_trans; [apply Rplus_le_compat_r; apply Rplus_le_compat_r; apply Rabs_triang|]. lra. }
    destruct Rounding64P.rnd64_std_model as (_ & _ & Hstd).
    destruct (Hstd x) as (dl & ep & Er & Hdl & Hep). rewrite Er.
    replace (x * (1 + dl) + ep - Dx) with ((x - Dx) + x * dl + ep) by ring.
    eapply Rle_trans; [apply Rabs_triang|].
    eapply Rle_trans; [apply Rplus_le_compat_r; apply Rabs_triang|].
    rewrite Rabs_mult.
    assert (HXu : Rabs x * Rabs dl <= u64 * ((G1 * N1 + Lmax * etaT) + kp * bqv Kc * ue * N1 + kp * bqv Kc * N1)).
    { rewrite (Rmult_comm (Rabs x)). apply Rmult_le_compat; try apply Rabs_pos; assumption. }
    pose proof (slack_arith u64 ue c kp ic q (bqv Gc) (bqv Kc) (bqv Bc) (conj Hu Hus) Hue Hc kp_range
                  (conj (Rle_trans _ _ _ Rle_0_1 (proj1 ic_range)) (proj2 ic_range)) q_range Gc_nonneg Kc_nonneg) as SL.
    assert (HB0 : 0 <= bqv Bc).
    { destruct (FloatDataP.wf_core_ranges d Hwf) as [HC _].
      eapply Rle_trans; [|apply (CumDataP.chk_cum_parts d Bc Kc Gc Hcu)].
      eapply Rle_trans; [|apply (CumDataP.B_cum_sound d HCf HC ii O ii_lt)].
      apply RoundingP.sumn_nonneg. intros; apply Rabs_pos. }
    specialize (SL HB0).
    pose proof (Rmult_le_compat_r N1 _ _ HN SL) as SL2.
    unfold G1 in *. lra.
  Qed.
End Main.

Theorem cum_float_error : forall d B K Gb Hb mb Bc Kc Gc c ue Lmax,
  wf_core d = true -> chk_float_data d B K = true -> chk_round d Gb Hb mb = true -> chk_cum d Bc Kc Gc = true ->
  0 <= c <= 1 / 10 ^ 8 -> 0 <= ue <= 1 / 10 ^ 8 -> INR mb * u64 <= 1 / 10 ^ 8 -> 0 <= Lmax ->
  forall (e n0 : frow) (i : N) (ce mo : list N) (lam_i : float) (t : R) (lamf : nat -> R),
  orders_okb_cum (ds_cf d) (ds_cif d) e n0 i ce mo = true ->
  ffin (pf_cum (ds_cf d) (ds_cif d) e n0 i ce mo lam_i) = true ->
  0 <= t ->
  let n0f := fun j : nat => fval (fget n0 (N.of_nat j)) in
  let Ef := fun k : nat => fval (fget e (N.of_nat k)) in
  (forall j, 0 <= n0f j) ->
  (forall k, (k < nn d)%nat -> Rabs (lamf k - lam (mur d) k) <= c * lam (mur d) k) ->
  (forall k, (k < nn d)%nat -> lamf k <= Lmax) ->
  fval lam_i = lamf (N.to_nat i) ->
  stableb d (N.to_nat i) = false ->
  (forall k, (k < nn d)%nat -> Ef k = 0 \/
      (mur d k <> 0 /\ Rabs (Ef k - (1 - exp (- lamf k * t)) / lamf k) <= ue / lamf k)) ->
  (forall k, (k < nn d)%nat -> (exists j, (j < nn d)%nat /\ Cifr d k j * n0f j <> 0) -> mur d k <> 0 ->
      Rabs (Ef k - (1 - exp (- lamf k * t)) / lamf k) <= ue / lamf k) ->
  Rabs (fval (pf_cum (ds_cf d) (ds_cif d) e n0 i ce mo lam_i)
        - Dcum (nn d) (Cr d) (Cir d) (mur d) (stableb d) n0f t (N.to_nat i))
  <= (1 + 1 / 10 ^ 6) * (bqv Gc * u64 + bqv Kc * ue + bqv Kc * u64 + bqv Bc + 2 * bqv Kc * c) * sumn (nn d) n0f
     + eta64 * (1 + u64) ^ mb * ((bqv Hb + 2 * INR mb) * sumn (nn d) n0f + 2 * INR mb) * (Lmax * (1 + u64)) + eta64.
Proof.
  intros d B K Gb Hb mb Bc Kc Gc c ue Lmax Hwf Hfd Hrd Hcu Hc Hue Hmb HLmax e n0 i ce mo lam_i t lamf
         Hok Hfin Ht n0f Ef Hn0 Hlam HLm Hli Hrad HE1 HE2.
  exact (cum_float_error_sec d B K Gb Hb mb Bc Kc Gc c ue Lmax Hwf Hfd Hrd Hcu Hc Hue Hmb e n0 i ce mo lam_i t lamf
           Hok Hfin Ht Hn0 Hlam HLm Hli Hrad HE1 HE2).
Qed.

(* ---------- the shipped data set *)
Lemma fval_Lmax : fval CertDefault.CumCert.Lmax_f = 1099511627776.
Proof.
  rewrite Rounding64P.fval_SF. unfold CertDefault.CumCert.Lmax_f.
  vm_compute Prim2SF. unfold SF2R, F2R. simpl. lra.
Qed.
Lemma ffin_Lmax : ffin CertDefault.CumCert.Lmax_f = true.
Proof. rewrite Rounding64P.ffin_SF. reflexivity. Qed.

Lemma fval_nonfin : forall f, ffin f = false -> fval f = 0.
Proof. intros f H. unfold ffin in H. unfold fval. destruct (Prim2B f); try discriminate; reflexivity. Qed.

Lemma leb_fval : forall f Lm, PrimFloat.leb f Lm = true -> ffin Lm = true -> 0 <= fval Lm -> fval f <= fval Lm.
Proof.
  intros f Lm H1 FL HL. destruct (ffin f) eqn:F.
  - rewrite leb_equiv in H1. rewrite Bleb_correct in H1 by (try exact F; exact FL).
    fold (fval f) in H1. fold (fval Lm) in H1. revert H1. case Rle_bool_spec; [auto|discriminate].
  - rewrite (fval_nonfin f F). exact HL.
Qed.

Lemma default_lamf_le : forall k, fval (nth k CertDefault.FloatDataCert.default_lam_val 0%float) <= 1099511627776.
Proof.
  intro k. destruct (Nat.lt_ge_cases k (length CertDefault.FloatDataCert.default_lam_val)) as [Hk|Hk].
  - pose proof CertDefault.CumCert.default_lam_range as H. unfold chk_lam_range in H.
    rewrite forallb_forall in H. specialize (H _ (nth_In _ 0%float Hk)).
    apply andb_prop in H. destruct H as [_ H].
    rewrite <- fval_Lmax. apply leb_fval; [exact H|exact ffin_Lmax|rewrite fval_Lmax; lra].
  - rewrite nth_overflow by exact Hk. rewrite Rounding64P.fval_zero. lra.
Qed.

Lemma bqv_Bc_bound : bqv (bq_of CertDefault.CumCert.Bc_bound) = 2 / 10 ^ 12.
Proof.
  rewrite bqv_of. unfold CertDefault.CumCert.Bc_bound. cbn [qn qd]. unfold Q2R. cbn [Qnum Qden]. lra.
Qed.

(* eta64 (1+u64)^131 2^40 (1+u64) <= 2^-1033 *)
Lemma PL_le : eta64 * (1 + u64) ^ 131 * (1099511627776 * (1 + u64)) <= bpow radix2 (-1033).
Proof.
  pose proof FloatDecayP.etaP_le as H. pose proof FloatDecayP.etaP_nonneg as H0.
  pose proof u64_nonneg as Hu. pose proof u64_small as Hus.
  apply Rle_trans with (bpow radix2 (-1074) * bpow radix2 41).
  - assert (E : bpow radix2 41 = 2199023255552) by (simpl; lra). rewrite E.
    apply Rmult_le_compat; [exact H0|lra|exact H|lra].
  - rewrite <- bpow_plus. apply bpow_le. lia.
Qed.

Lemma PL_nonneg : 0 <= eta64 * (1 + u64) ^ 131 * (1099511627776 * (1 + u64)).
Proof. pose proof FloatDecayP.etaP_nonneg. pose proof u64_nonneg. apply Rmult_le_pos; [assumption|lra]. Qed.

Lemma under_const_cum :
  eta64 * (1 + u64) ^ 131 * (1099511627776 * (1 + u64)) * (2 * 131) + eta64 <= bpow radix2 (-1000).
Proof.
  pose proof PL_le as H. pose proof PL_nonneg as H0.
  set (PL := eta64 * (1 + u64) ^ 131 * (1099511627776 * (1 + u64))) in *.
  assert (H1 : PL * (2 * 131) <= bpow radix2 (-1024)).
  { apply Rle_trans with (bpow radix2 (-1033) * bpow radix2 9).
    - assert (E : bpow radix2 9 = 512) by (simpl; lra). rewrite E.
      pose proof (bpow_ge_0 radix2 (-1033)). nra.
    - rewrite <- bpow_plus. apply bpow_le. lia. }
  assert (H2 : eta64 <= bpow radix2 (-1024)).
  { unfold eta64. assert (bpow radix2 (-1074) <= bpow radix2 (-1024)) by (apply bpow_le; lia).
    pose proof (bpow_ge_0 radix2 (-1074)). lra. }
  assert (H3 : bpow radix2 (-1000) = bpow radix2 (-1024) * bpow radix2 24) by (rewrite <- bpow_plus; reflexivity).
  assert (E : bpow radix2 24 = 16777216) by (simpl; lra).
  rewrite H3, E. pose proof (bpow_ge_0 radix2 (-1024)). lra.
Qed.

Lemma under_coef_cum :
  eta64 * (1 + u64) ^ 131 * (1099511627776 * (1 + u64)) * (402222 + 2 * 131) <= 1 / 10 ^ 13.
Proof.
  pose proof PL_le as H. pose proof PL_nonneg as H0.
  set (PL := eta64 * (1 + u64) ^ 131 * (1099511627776 * (1 + u64))) in *.
  assert (H1 : bpow radix2 (-1033) <= bpow radix2 (-64)) by (apply bpow_le; lia).
  rewrite FloatDecayP.bpow_m64 in H1.
  apply Rle_trans with (/ 18446744073709551616 * (402222 + 2 * 131)); [|lra].
  apply Rmult_le_compat_r; lra.
Qed.

Theorem default_cum_float_error :
  forall (e n0 : frow) (i : N) (ce mo : list N) (t : R),
  let lam_i := nth (N.to_nat i) Proofs.CertDefault.FloatDataCert.default_lam_val 0%float in
  orders_okb_cum (ds_cf Default) (ds_cif Default) e n0 i ce mo = true ->
  ffin (pf_cum (ds_cf Default) (ds_cif Default) e n0 i ce mo lam_i) = true ->
  0 <= t ->
  let n0f := fun j : nat => fval (fget n0 (N.of_nat j)) in
  let Ef := fun k : nat => fval (fget e (N.of_nat k)) in
  let lamf := fun k : nat => fval (nth k Proofs.CertDefault.FloatDataCert.default_lam_val 0%float) in
  (forall j, 0 <= n0f j) ->
  stableb Default (N.to_nat i) = false ->
  (forall k, (k < nn Default)%nat -> Ef k = 0 \/
      (mur Default k <> 0 /\ Rabs (Ef k - (1 - exp (- lamf k * t)) / lamf k) <= bpow radix2 (-50) / lamf k)) ->
  (forall k, (k < nn Default)%nat -> (exists j, (j < nn Default)%nat /\ Cifr Default k j * n0f j <> 0) -> mur Default k <> 0 ->
      Rabs (Ef k - (1 - exp (- lamf k * t)) / lamf k) <= bpow radix2 (-50) / lamf k) ->
  Rabs (fval (pf_cum (ds_cf Default) (ds_cif Default) e n0 i ce mo lam_i)
        - Dcum (nn Default) (Cr Default) (Cir Default) (mur Default) (stableb Default) n0f t (N.to_nat i))
  <= 1 / 10 ^ 11 * sumn (nn Default) n0f + bpow radix2 (-1000).
Proof.
  intros e n0 i ce mo t lam_i Hok Hfin Ht n0f Ef lamf Hn0 Hrad HE1 HE2.
  assert (Hc : 0 <= 1 / 10 ^ 15 <= 1 / 10 ^ 8) by lra.
  assert (Hue : 0 <= bpow radix2 (-50) <= 1 / 10 ^ 8) by (rewrite FloatDecayP.bpow_m50; lra).
  assert (Hmb : INR CertDefault.RoundCert.m_bound * u64 <= 1 / 10 ^ 8)
    by (rewrite FloatDecayP.INR_m_bound, u64_val; lra).
  assert (HL : 0 <= 1099511627776) by lra.
  assert (Hlam : forall k, (k < nn Default)%nat ->
            Rabs (lamf k - lam (mur Default) k) <= 1 / 10 ^ 15 * lam (mur Default) k).
  { intros k Hk. rewrite <- FloatDecayP.bqv_c_bound. unfold lamf.
    apply (FloatDecayLam.lambda_close_sound Default _ _ CertDefault.FloatDataCert.default_lambda_close).
    rewrite (FloatDecayP.wf_core_lengths Default DefaultWf.default_wf_core). exact Hk. }
  assert (HLm : forall k, (k < nn Default)%nat -> lamf k <= 1099511627776).
  { intros k _. apply default_lamf_le. }
  pose proof (cum_float_error Default (bq_of CertDefault.FloatDataCert.B_bound) (bq_of CertDefault.FloatDataCert.K_bound)
                (bq_of CertDefault.RoundCert.G_bound) (bq_of CertDefault.RoundCert.H_bound) CertDefault.RoundCert.m_bound
                (bq_of CertDefault.CumCert.Bc_bound) (bq_of CertDefault.CumCert.Kc_bound) (bq_of CertDefault.CumCert.Gc_bound)
                (1 / 10 ^ 15) (bpow radix2 (-50)) 1099511627776
                DefaultWf.default_wf_core CertDefault.FloatDataCert.default_float_matrices CertDefault.RoundCert.default_round
                CertDefault.CumCert.default_cum
                Hc Hue Hmb HL e n0 i ce mo lam_i t lamf Hok Hfin Ht Hn0 Hlam HLm (eq_refl (lamf (N.to_nat i))) Hrad HE1 HE2) as H.
  eapply Rle_trans; [exact H|]. clear H.
  assert (HX : 0 <= sumn (nn Default) n0f) by (apply RoundingP.sumn_nonneg; intros; apply Hn0).
  set (X := sumn (nn Default) n0f) in *.
  assert (EK : bqv (bq_of CertDefault.CumCert.Kc_bound) = 532) by apply (FloatDecayP.bqv_qlit1 532).
  assert (EG : bqv (bq_of CertDefault.CumCert.Gc_bound) = 10181) by apply (FloatDecayP.bqv_qlit1 10181).
  assert (EH : bqv (bq_of CertDefault.RoundCert.H_bound) = 402222) by apply (FloatDecayP.bqv_qlit1 402222).
  rewrite FloatDecayP.INR_m_bound. unfold CertDefault.RoundCert.m_bound.
  rewrite EK, EG, EH, bqv_Bc_bound, FloatDecayP.bpow_m50.
  pose proof under_const_cum as U1. pose proof under_coef_cum as U2.
  set (P := eta64 * (1 + u64) ^ 131) in *.
  set (LL := 1099511627776 * (1 + u64)) in *.
  change (sumn (nn Default) (fun j : nat => fval (fget n0 (N.of_nat j)))) with X.
  rewrite u64_val.
  assert (HXU : P * LL * (402222 + 2 * 131) * X <= 1 / 10 ^ 13 * X) by (apply Rmult_le_compat_r; assumption).
  lra.
Qed.

Print Assumptions cum_float_error.
Print Assumptions default_cum_float_error.
