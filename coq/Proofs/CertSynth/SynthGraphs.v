From Coq Require Import List.
From RD Require Import Base Model.Dataset Model.Synth Model.Digraph Model.DigraphD.
From RD.Gen.Synth Require Meta.
Definition synth_gv : gview := Eval vm_compute in graph_view Synth Meta.bf_reprs.
Lemma synth_gv_eq : synth_gv = graph_view Synth Meta.bf_reprs.
Proof. vm_compute. reflexivity. Qed.
Lemma synth_graphs_ok : all_graphs_ok synth_gv = true.
Proof. vm_cast_no_check (eq_refl true). Qed.
