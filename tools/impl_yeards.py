"""Implementation side of the C06 stream over data sets with a different days-per-year constant (PYTHONPATH=/repo).

stdin JSON: {"scratch": dir, "years": [["1461", "4"], ...]   (exact days per year of the synthetic copies, data set index 1..)
             "steps": [[ds_index, kind, args] ...]}            (ds_index 0 = the default data set; steps run in the given order,
                                                                so the data sets are used interleaved in ONE process)
kinds: conv [t, u]        UnitConverterFloat.time_unit_conv(t, u, 's', ds.float_year_conv)            -> seconds (hex)
       decay [nuc, t, u]  Inventory({nuc: 1e20}, 'num', True, ds): decay(t, u) identical to decay(seconds, 's'); the seconds used
       half_life [nuc, u] ds.half_life(nuc, u), stored (value, unit), and what decaying a lone nuclide for it leaves
       hpconv [t, u]      UnitConverterSympy.time_unit_conv(nsimplify(t), u, 's', ds.sympy_year_conv)  -> exact p/q of x and of the result
Each synthetic copy is the shipped data set with only the year length replaced (decay_data.npz year_conv and the SymPy pickle)."""
import json, os, pickle, shutil, sys, tempfile
from fractions import Fraction


def hx(x):
    return float(x).hex()


def main():
    import numpy as np, sympy
    import radioactivedecay as rd
    from radioactivedecay import icrp107_ame2020_nubase2020 as pkg
    from radioactivedecay.converters import UnitConverterFloat, UnitConverterSympy
    from radioactivedecay.decaydata import load_dataset
    req = json.load(sys.stdin)
    src = pkg.__path__[0]
    dsets = [rd.DEFAULTDATA]
    tmp = tempfile.mkdtemp(prefix="yeards_", dir=req["scratch"])
    try:
        for k, (p, q) in enumerate(req["years"]):
            d = os.path.join(tmp, f"y{k}")
            os.makedirs(d)
            for f in os.listdir(src):
                if f.endswith((".npz", ".pickle")):
                    shutil.copy(os.path.join(src, f), os.path.join(d, f))
            npz = np.load(os.path.join(src, "decay_data.npz"), allow_pickle=True)
            arrays = {key: npz[key] for key in npz.files}
            arrays["year_conv"] = np.array(float(Fraction(int(p), int(q))))
            np.savez(os.path.join(d, "decay_data.npz"), **arrays)
            for f in os.listdir(d):
                if f.startswith("year_conversion_sympy_"):
                    with open(os.path.join(d, f), "wb") as fh:
                        pickle.dump(sympy.Rational(int(p), int(q)), fh)
            dsets.append(load_dataset(f"synthetic_year_{k}", d, load_sympy=True))
    finally:
        shutil.rmtree(tmp, ignore_errors=True)
    out = []
    for di, kind, args in req["steps"]:
        ds = dsets[di]
        r = {}
        try:
            if kind == "conv":
                r["secs"] = hx(UnitConverterFloat.time_unit_conv(float.fromhex(args[0]), args[1], "s", ds.float_year_conv))
            elif kind == "decay":
                nuc, t, u = args[0], float.fromhex(args[1]), args[2]
                inv = rd.Inventory({nuc: 1.0e20}, "num", True, ds)
                secs = inv._convert_decay_time(t, u)
                r["secs"] = hx(secs)
                a, b = inv.decay(t, u).numbers(), inv.decay(secs, "s").numbers()
                r["decay_same"] = list(a) == list(b) and all(hx(a[k]) == hx(b[k]) for k in a)
                ca, cb = inv.cumulative_decays(t, u), inv.cumulative_decays(secs, "s")
                r["cum_same"] = list(ca) == list(cb) and all(hx(ca[k]) == hx(cb[k]) for k in ca)
            elif kind == "half_life":
                nuc, u = args
                T = ds.half_life(nuc, u)
                r["T"] = hx(T)
                st = ds.hldata[ds.nuclide_dict[nuc]]
                r["stored"] = [hx(st[0]), str(st[1])]
                inv = rd.Inventory({nuc: 1.0}, "num", True, ds)
                r["left"] = hx(inv.decay(T, u).numbers()[nuc])
                r["via_nuclide"] = hx(rd.Nuclide(nuc, ds).half_life(u))
                r["via_inventory"] = hx(inv.half_lives(u)[nuc])
            elif kind == "hpconv":
                x = sympy.nsimplify(float.fromhex(args[0]))
                y = UnitConverterSympy.time_unit_conv(x, args[1], "s", ds.sympy_year_conv)
                r["x"] = [str(int(x.p)), str(int(x.q))] if x.is_Rational else None
                r["y"] = [str(int(y.p)), str(int(y.q))] if y.is_Rational else None
                inv = rd.InventoryHP({"H-3": 1.0}, "num", True, ds)
                y2 = inv._convert_decay_time(x, args[1])
                r["same_in_inventory"] = bool(y2 == y)
        except Exception as e:
            r["err"] = type(e).__name__ + ": " + str(e)[:80]
        out.append(r)
    json.dump(out, sys.stdout)


main()
