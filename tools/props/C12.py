"""C12 - CSV export and import are inverse and follow the documented precedence."""
import random
import common as C
import corr_csv as V

PID = "C12"
PROPS_MODULE = "Props.C12"
THEOREMS = ["unit_precedence", "skip_rows_exact", "no_rows_refused", "digit_names_are_ids", "equals_direct_construction",
            "add_row_is_add", "failing_row_fails", "to_rows_shape", "to_rows_unknown_unit"]
REQUIRED = ["Props/C12.v"]
TRANSLATORS = ["tr_pure", "tr_tables"]
SHAPE_KEYS = ["fileio.py::", "_write_csv_file", "AbstractInventory::to_csv", "AbstractInventory::add", "AbstractInventory::__init__",
              "InventoryHP::__init__"]
PARTIAL = ["the row-seam model (Model/Csv.v) is hand-written except the to_csv unit dispatch (generated); tie = recorded source text + real-file correspondence",
           "the numeric round trip (str(float) / float(str), csv codec, encodings) is runtime behaviour: decided through real files, not proved",
           "InventoryHP amounts below ~1e-32 used to be flushed to zero (F13, fixed in /repo 1c72014); the recorded input is still re-run on every check"]
TRUSTED_BASE = ["Coq 8.16.1 kernel", "axioms: none", "tr_pure.py (dispatch chain), tr_shapes.py source-text ties", "harness tools/impl_csv.py (real files in a temporary directory)"]
ASSUMPTIONS = ["csv module, text codecs and float repr/parse are inverse on the exercised fields"]


def correspondence(ctx):
    rng = random.Random(ctx["seed"] + 12)
    streams, viol, samples = {}, [], []
    V.csv_stream(rng, 3000 if ctx["tier"] == "thorough" else 300, streams, viol, samples)
    return {"streams": streams, "violations": viol, "samples": samples}


def search_broken(ctx):
    return []


def replay(payload):
    return {"fails": True, "note": "the case (options, contents or file text) is in the payload; feed it to tools/impl_csv.py"}
