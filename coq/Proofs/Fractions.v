(* Proofs of the fraction / share properties stated in Props/C14.v.
   The generated definitions (Gen/InvGen.v, Gen/ConvGen.v) are only unfolded, never referred to by
   their bound-variable names. *)
From Coq Require Import String.
From Coq Require Import ZArith NArith List Bool QArith Reals Qreals Lra.
From RD Require Import Base Lib.Py Lib.Num Gen.Tables Gen.ConvGen Gen.InvGen Model.UnitSpec Model.UnitsR.
From RD Require Import Proofs.Units.
Import ListNotations.
Local Open Scope R_scope.

(* ------------------------------------------------------------------ dict helpers *)
Lemma bind_ret : forall (A : Type) (m : res A), bind m (fun x => OK x) = m.
Proof. intros A m. destruct m; reflexivity. Qed.

Lemma vmap_cons : forall f k v (r : list (str * R)), vmap f ((k, v) :: r) = (k, f v) :: vmap f r.
Proof. reflexivity. Qed.

Lemma dmap_pure : forall (f : R -> R) (l : list (str * R)),
  dmap_res (fun _ v => OK (f v)) l = OK (vmap f l).
Proof.
  intros f l. induction l as [|[k v] r IH]; [reflexivity|].
  rewrite vmap_cons. cbn [dmap_res bind]. rewrite IH. reflexivity.
Qed.

Lemma frac_shape : forall (t : R) (l : list (str * R)),
  bind (dmap_res (fun _ a => OK (ndiv R_ops a t)) l) (fun dc => OK dc) = OK (vmap (fun a => a / t) l).
Proof. intros t l. rewrite bind_ret. exact (dmap_pure (fun a => a / t) l). Qed.

(* ------------------------------------------------------------------ sums *)
Fixpoint rsum (l : list R) : R := match l with [] => 0 | x :: r => x + rsum r end.

Lemma fold_Rplus : forall l a, fold_left Rplus l a = a + rsum l.
Proof.
  induction l as [|x r IH]; intros a; cbn [fold_left rsum]; [ring|].
  rewrite IH. ring.
Qed.

Lemma vsum_nil : vsum [] = 0.
Proof. reflexivity. Qed.

Lemma vsum_cons : forall k v r, vsum ((k, v) :: r) = v + vsum r.
Proof.
  intros k v r. unfold vsum. cbn [map snd fold_left]. rewrite (fold_Rplus _ (0 + v)), (fold_Rplus _ 0). ring.
Qed.

Lemma vsum_vmap_div : forall t l, vsum (vmap (fun a => a / t) l) = vsum l / t.
Proof.
  intros t l. induction l as [|[k v] r IH].
  - change (vmap (fun a => a / t) []) with (@nil (str * R)). rewrite vsum_nil. unfold Rdiv. ring.
  - rewrite vmap_cons, !vsum_cons, IH. unfold Rdiv. ring.
Qed.

Lemma vsum_vmap_mul : forall c l, vsum (vmap (Rmult c) l) = c * vsum l.
Proof.
  intros c l. induction l as [|[k v] r IH].
  - change (vmap (Rmult c) []) with (@nil (str * R)). rewrite vsum_nil. ring.
  - rewrite vmap_cons, !vsum_cons, IH. ring.
Qed.

Lemma vsum_nonneg : forall l : list (str * R), (forall kv, In kv l -> 0 <= snd kv) -> 0 <= vsum l.
Proof.
  induction l as [|[k v] r IH]; intros Hpos.
  - rewrite vsum_nil. lra.
  - rewrite vsum_cons.
    assert (Hv : 0 <= v) by exact (Hpos (k, v) (or_introl eq_refl)).
    assert (Hr : 0 <= vsum r) by (apply IH; intros kv Hin; apply Hpos; right; exact Hin).
    lra.
Qed.

Lemma elem_le_vsum : forall l : list (str * R), (forall kv, In kv l -> 0 <= snd kv) ->
  forall kv, In kv l -> snd kv <= vsum l.
Proof.
  induction l as [|[k v] r IH]; intros Hpos kv Hin; [destruct Hin|].
  rewrite vsum_cons.
  assert (Hv : 0 <= v) by exact (Hpos (k, v) (or_introl eq_refl)).
  assert (Hposr : forall kv0, In kv0 r -> 0 <= snd kv0) by (intros kv0 Hin0; apply Hpos; right; exact Hin0).
  pose proof (vsum_nonneg r Hposr) as Hr.
  destruct Hin as [He|Hin].
  - subst kv. cbn [snd]. lra.
  - pose proof (IH Hposr kv Hin) as Hle. lra.
Qed.

(* ------------------------------------------------------------------ C14: fractions are shares *)
Lemma dsum_vsum : forall l, dsum R_ops l = vsum l.
Proof. reflexivity. Qed.

Lemma activity_fraction_is_share : forall (names : list str) (lam : list R) contents acts,
  r_activities names lam contents [66%N; 113%N] = OK acts ->
  r_activity_fractions names lam contents = OK (vmap (fun a => a / vsum acts) acts).
Proof.
  intros names lam contents acts H. unfold r_activity_fractions, activity_fractions.
  change (activities R_ops AR names lam contents (s2l "Bq")) with (r_activities names lam contents [66%N; 113%N]).
  rewrite H. cbv [bind]. exact (frac_shape (vsum acts) acts).
Qed.

Lemma mass_fraction_is_share : forall (names : list str) (mass_l : list R) contents ms,
  r_masses names mass_l contents [103%N] = OK ms ->
  r_mass_fractions names mass_l contents = OK (vmap (fun a => a / vsum ms) ms).
Proof.
  intros names mass_l contents ms H. unfold r_mass_fractions, mass_fractions.
  change (masses R_ops MR avoR names mass_l contents (s2l "g")) with (r_masses names mass_l contents [103%N]).
  rewrite H. cbv [bind]. exact (frac_shape (vsum ms) ms).
Qed.

Lemma mole_fraction_is_share : forall contents,
  r_mole_fractions contents = OK (vmap (fun a => a / vsum contents) contents).
Proof.
  intros contents. unfold r_mole_fractions, mole_fractions, numbers.
  cbv [bind]. exact (frac_shape (vsum contents) contents).
Qed.

Lemma shares_in_unit_interval : forall (l : list (str * R)),
  (forall kv, In kv l -> 0 <= snd kv) -> 0 < vsum l ->
  forall kv, In kv (vmap (fun a => a / vsum l) l) -> 0 <= snd kv <= 1.
Proof.
  intros l Hpos Ht kv Hin. unfold vmap in Hin. apply in_map_iff in Hin.
  destruct Hin as [kv0 [He Hin0]]. subst kv. cbn [snd].
  pose proof (Hpos kv0 Hin0) as H0. pose proof (elem_le_vsum l Hpos kv0 Hin0) as H1.
  pose proof (Rinv_0_lt_compat _ Ht) as Hi.
  unfold Rdiv. split.
  - apply Rmult_le_pos; lra.
  - rewrite <- (Rinv_r (vsum l)) by lra. apply Rmult_le_compat_r; lra.
Qed.

Lemma shares_sum_to_one : forall (l : list (str * R)), vsum l <> 0 ->
  vsum (vmap (fun a => a / vsum l) l) = 1.
Proof. intros l Hl. rewrite vsum_vmap_div. field. exact Hl. Qed.

Lemma shares_scale_invariant : forall (l : list (str * R)) c, c <> 0 -> vsum l <> 0 ->
  vmap (fun a => a / vsum (vmap (Rmult c) l)) (vmap (Rmult c) l) = vmap (fun a => a / vsum l) l.
Proof.
  intros l c Hc Hl. rewrite vsum_vmap_mul. unfold vmap. rewrite map_map.
  apply map_ext. intros [k v]. cbn [fst snd]. f_equal. field. split; assumption.
Qed.

(* ------------------------------------------------------------------ C14: read-outs are linear *)
Lemma dmap_scale : forall (f : str -> R -> res R) c,
  (forall k v y, f k v = OK y -> f k (c * v) = OK (c * y)) ->
  forall l l', dmap_res f l = OK l' -> dmap_res f (vmap (Rmult c) l) = OK (vmap (Rmult c) l').
Proof.
  intros f c Hf. induction l as [|[k v] r IH]; intros l' H.
  - cbn [dmap_res] in H. inversion H. reflexivity.
  - cbn [dmap_res] in H.
    destruct (f k v) as [y|e] eqn:E; cbn [bind] in H; [|discriminate].
    destruct (dmap_res f r) as [r'|e] eqn:E2; cbn [bind] in H; [|discriminate].
    inversion H. rewrite !vmap_cons. cbn [dmap_res].
    rewrite (Hf _ _ _ E). cbn [bind]. rewrite (IH r' eq_refl). reflexivity.
Qed.

Lemma activities_scale : forall (names : list str) (lam : list R) contents c acts,
  r_activities names lam contents [66%N; 113%N] = OK acts ->
  r_activities names lam (vmap (Rmult c) contents) [66%N; 113%N] = OK (vmap (Rmult c) acts).
Proof.
  intros names lam contents c acts H. unfold r_activities, activities in H |- *.
  cbv beta zeta in H |- *. rewrite bind_ret in H |- *.
  refine (dmap_scale _ c _ _ _ H). clear H. intros k v y Hk. cbv beta in Hk |- *.
  destruct (by_name names lam k) as [l|e]; cbn [bind] in Hk |- *; [|discriminate].
  unfold number_to_activity in Hk |- *. cbn [bind] in Hk |- *.
  unfold AR in Hk |- *. rewrite act_conv_eval in Hk |- *.
  destruct (q_assoc (s2l "Bq") (tQ activity_units_q)) as [a|]; [|discriminate].
  destruct (q_assoc [66%N; 113%N] (tQ activity_units_q)) as [b|]; [|discriminate].
  cbn [bind] in Hk |- *. inversion Hk. f_equal. cbn [nmul R_ops]. unfold Rdiv. ring.
Qed.

Lemma masses_scale : forall (names : list str) (mass_l : list R) contents c ms,
  r_masses names mass_l contents [103%N] = OK ms ->
  r_masses names mass_l (vmap (Rmult c) contents) [103%N] = OK (vmap (Rmult c) ms).
Proof.
  intros names mass_l contents c ms H. unfold r_masses, masses in H |- *.
  cbv beta zeta in H |- *. rewrite bind_ret in H |- *.
  refine (dmap_scale _ c _ _ _ H). clear H. intros k v y Hk. cbv beta in Hk |- *.
  destruct (by_name names mass_l k) as [m|e]; cbn [bind] in Hk |- *; [|discriminate].
  unfold number_to_mass in Hk |- *. cbn [bind] in Hk |- *.
  unfold MR in Hk |- *. rewrite mass_conv_eval in Hk |- *.
  destruct (q_assoc (s2l "g") (tQ mass_units_q)) as [a|]; [|discriminate].
  destruct (q_assoc [103%N] (tQ mass_units_q)) as [b|]; [|discriminate].
  cbn [bind] in Hk |- *. inversion Hk. f_equal. cbn [nmul ndiv R_ops]. unfold Rdiv. ring.
Qed.

Lemma readouts_scale : forall names lam mass_l contents c acts ms,
  r_activities names lam contents [66%N; 113%N] = OK acts ->
  r_masses names mass_l contents [103%N] = OK ms ->
  r_activities names lam (vmap (Rmult c) contents) [66%N; 113%N] = OK (vmap (Rmult c) acts) /\
  r_masses names mass_l (vmap (Rmult c) contents) [103%N] = OK (vmap (Rmult c) ms).
Proof.
  intros names lam mass_l contents c acts ms Ha Hm. split.
  - exact (activities_scale names lam contents c acts Ha).
  - exact (masses_scale names mass_l contents c ms Hm).
Qed.

Print Assumptions activity_fraction_is_share.
Print Assumptions mass_fraction_is_share.
Print Assumptions mole_fraction_is_share.
Print Assumptions shares_in_unit_interval.
Print Assumptions shares_sum_to_one.
Print Assumptions shares_scale_invariant.
Print Assumptions readouts_scale.
