"""C05 - amounts convert consistently between every unit and quantity kind."""
import random
import common as C
import corr_units as U

PID = "C05"
PROPS_MODULE = "Props.C05"
THEOREMS = ["tables_match_spec", "same_table_lookup", "float_tables_close", "kinds_disjoint", "activity_readback",
            "mass_readback", "moles_readback", "kinds_tied", "unit_ratio_activity", "unit_ratio_mass",
            "unit_ratio_moles", "unknown_unit_refused", "stable_activity_refused"]
REQUIRED = ["Props/C05.v", "Model/UnitsCheck.v"]
TRANSLATORS = ["tr_pure", "tr_tables", "tr_data"]
SHAPE_KEYS = ["load_dataset", "InventoryHP::__init__", "AbstractInventory::__init__", "AbstractInventory::add", "AbstractInventory::subtract"]
PARTIAL = ["few-ulp read-back of the FLOAT class is decided per case (bit-exact correspondence + 8-ulp predicate on the "
           "implementation), not by a rounding theorem (Flocq instantiation not built)",
           "high-precision class: theorems hold for the exact tables (same generated functions); correspondence for InventoryHP is in C08/C12 streams"]
TRUSTED_BASE = [
    "Coq 8.16.1 kernel incl. vm_compute",
    "axioms: ClassicalDedekindReals.sig_forall_dec, sig_not_dec, functional_extensionality_dep, classic (Reals); primitive float/int items for the float-table lemma",
    "translators tools/tr_pure.py + pytr.py (converters.py, inventory.py -> Gen/ConvGen.v, Gen/InvGen.v), tr_tables.py, tr_data.py",
    "PrimFloat as the model of IEEE binary64 + - * / (bit-exact correspondence polices it)",
    "oracle: sympy.nsimplify(AVOGADRO) evaluated by the translator; Coq proves it equals 6.02214076e23 exactly and is within 1 ulp of the float",
]
ASSUMPTIONS = ["NumPy/CPython float arithmetic is IEEE binary64 round-to-nearest-even",
               "np.log(2) == 0x1.62e42fefa39efp-1 (checked through the decay constants)"]


def correspondence(ctx):
    rng = random.Random(ctx["seed"] + 5)
    streams, viol, samples = {}, [], []
    U.units_stream(rng, 60 if ctx["tier"] == "thorough" else 12, streams, viol, samples)
    return {"streams": streams, "violations": viol, "samples": samples}


def search_broken(ctx):
    return []


def replay(payload):
    c = payload.get("input")
    if not isinstance(c, dict) or "nuc" not in c:
        return {"fails": True, "note": "nothing to replay; theorem/correspondence named in the file"}
    r = U.run_impl("impl_units.py", [c])[0]
    import math
    if "err" in r:
        return {"fails": not (r["err"] == "ValueError" and c.get("stable") and c["kind"] == "activity"), "impl": r}
    x = float.fromhex(c["amount"]); back = float.fromhex(r["back"])
    return {"fails": abs(back - x) > 8 * math.ulp(x), "impl": r}
