(* Interval evaluation (coq-interval, arbitrary precision) of the exact decay flow of a data set:
   N_i(t) = sum_k C_ik exp(-mu_k ln2 t) (C^-1 n0)_k  and the cumulative-decay integral, with the exact
   rational matrices.  Used by the correspondence of C01/C02/C03/C07 as the reference value; the
   enclosure property is proved in Proofs/DecayEnclosure.v.  Definitions only. *)
From Coq Require Import ZArith NArith List Bool Reals.
From Coq Require Import PrimFloat FloatOps SpecFloat.
From Interval Require Import Float.Specific_bigint Float.Specific_ops Interval.Float_full Interval.Interval
  Float.Basic Real.Xreal.
From RD Require Import Base Model.Dataset.
Import ListNotations.

Module F := SpecificFloat BigIntRadix2.
Module I := FloatIntervalFull F.

Section WithPrec.
  Variable prec : F.precision.

  Definition izero : I.type := I.fromZ_small 0.
  Definition iq (q : qlit) : I.type := I.div prec (I.fromZ prec (qn q)) (I.fromZ prec (Zpos (qd q))).
  (* m * 2^e *)
  Definition idyadic (m e : Z) : I.type :=
    match e with
    | Z0 => I.fromZ prec m
    | Zpos p => I.mul prec (I.fromZ prec m) (I.fromZ prec (Z.pow_pos 2 p))
    | Zneg p => I.div prec (I.fromZ prec m) (I.fromZ prec (Z.pow_pos 2 p))
    end.
  (* exact value of a finite binary64 *)
  Definition ifloat (f : float) : I.type :=
    match Prim2SF f with
    | S754_zero _ => izero
    | S754_finite s m e => idyadic (if s then Zneg m else Zpos m) e
    | _ => I.nai
    end.

  Definition small : I.type := idyadic 1 (-4000).
  Definition small_box : I.type := I.bnd (F.neg (I.upper small)) (I.upper small).
  Definition clampI (x : I.type) : I.type := if I.subset x small_box then small_box else x.

  Fixpoint lookupI (k : N) (l : list (N * I.type)) : I.type :=
    match l with [] => izero | (a, v) :: r => if N.eqb a k then v else lookupI k r end.

  Definition dot (r : qrow) (f : N -> I.type) : I.type :=
    fold_left (fun acc kx => I.add prec acc (I.mul prec (iq (snd kx)) (f (fst kx)))) r izero.

  Definition iln2 : I.type := I.ln prec (I.fromZ prec 2).

  Section WithData.
    Variable d : dataset.
    Variable n0 : list (N * I.type).        (* initial atoms by nuclide index *)
    Variable t : I.type.                    (* decay time in seconds, t >= 0 *)

    (* indices reachable from the initial nuclides: rows of C with an entry in an initial column *)
    Fixpoint rows_hit (i : N) (rows : list qrow) : list N :=
      match rows with
      | [] => []
      | r :: rest =>
          (if existsb (fun kx => existsb (fun jv => N.eqb (fst jv) (fst kx)) n0) r then [i] else [])
          ++ rows_hit (N.succ i) rest
      end.
    Definition closure : list N := rows_hit 0%N (ds_c d).

    Definition nth_row (m : list qrow) (k : N) : qrow := nth (N.to_nat k) m [].
    Definition mu_of (k : N) : qlit := nth (N.to_nat k) (ds_mu d) (QL 0 1).

    Definition wI (k : N) : I.type := dot (nth_row (ds_ci d) k) (fun j => lookupI j n0).
    Definition lam_t (k : N) : I.type := I.mul prec (I.mul prec (iq (mu_of k)) iln2) t.
    (* exponentials far below any representable amount are widened to [-2^-4000, 2^-4000]: a sound
       enclosure that keeps the exponent ranges of the following additions small *)
    Definition expI (k : N) : I.type := clampI (I.exp prec (I.neg (lam_t k))).
    (* g_k = exp(-lambda_k t) * w_k  for k in the closure *)
    Definition gvec : list (N * I.type) := map (fun k => (k, I.mul prec (expI k) (wI k))) closure.
    Definition NtI_all : list (N * I.type) :=
      let g := gvec in map (fun i => (i, dot (nth_row (ds_c d) i) (fun k => lookupI k g))) closure.

    (* cumulative decays: lambda_i * sum_k C_ik * (1 - exp(-lambda_k t)) / lambda_k * w_k, radioactive k only *)
    Definition is_stable (k : N) : bool := Z.eqb (qn (mu_of k)) 0.
    Definition lamI (k : N) : I.type := I.mul prec (iq (mu_of k)) iln2.
    Definition hvec : list (N * I.type) :=
      map (fun k => (k, if is_stable k then izero
                        else I.mul prec (I.div prec (I.sub prec (I.fromZ prec 1) (expI k)) (lamI k)) (wI k))) closure.
    Definition DcumI_all : list (N * I.type) :=
      let h := hvec in
      map (fun i => (i, I.mul prec (lamI i) (dot (nth_row (ds_c d) i) (fun k => lookupI k h))))
          (filter (fun i => negb (is_stable i)) closure).

    (* sum of the initial atoms held by the ancestors of i (row i of C names them, i included) *)
    Definition anc_sum (i : N) : I.type :=
      fold_left (fun acc kx => I.add prec acc (I.abs (lookupI (fst kx) n0))) (nth_row (ds_c d) i) izero.
  End WithData.

  (* |v - e| <= tol, decided on intervals: e - tol <= v <= e + tol for every point of e *)
  Definition within (v e tol : I.type) : bool :=
    match I.sign_large (I.sub prec tol (I.abs (I.sub prec v e))) with
    | Xgt | Xeq => true
    | _ => false
    end.
End WithPrec.
