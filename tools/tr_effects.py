#!/venv/bin/python
"""tr_effects: effect summaries of the methods of inventory.py -> coq/Gen/EffectsGen.v

Every method body is flattened (branches concatenated in source order, loops unrolled once: the checks
below are monotone in the set of events, so this over-approximates every path) into a list of events:

  Bind x o        local x is bound to a fresh object (OFresh: a call result, literal, comprehension, .copy()),
                  to another local (OVar y) or to an object reachable from self / a parameter (OShared path)
  Mutate x        in-place change through local x      (x[...] = .., x.a[...] = .., x.pop/update/append/..., del x[..])
  MutateShared p  in-place change through a path rooted at self or a parameter
  AssignAttr a    self.a = ...
  MayRaise        the statement contains a call or a raise

Fail-closed: statement forms that are not recognised abort the generation."""
import ast
import os
import sys

sys.path.insert(0, os.path.dirname(os.path.abspath(__file__)))
from tr_data import write_if_changed
from pytr import Unsupported, coq_str_lit

REPO = os.environ.get("RD_REPO", "/repo")
MUTATORS = {"pop", "update", "append", "extend", "clear", "remove", "insert", "setdefault", "popitem", "sort", "reverse",
            "add", "discard", "fill", "resize", "itemset", "eliminate_zeros", "setdiag", "sum_duplicates", "row_del", "col_del"}
# methods of the inventory itself that mutate it (documented mutators); calling them is a mutation of the receiver
SELF_MUTATORS = {"add", "subtract", "remove"}


def root_path(e):
    """Attribute/Subscript chain -> (root name, dotted path) or None"""
    parts = []
    while True:
        if isinstance(e, ast.Attribute):
            parts.append(e.attr)
            e = e.value
        elif isinstance(e, ast.Subscript):
            e = e.value
        elif isinstance(e, ast.Name):
            return e.id, ".".join([e.id] + parts[::-1])
        else:
            return None


class Eff:
    def __init__(self, params):
        self.params = set(params)
        self.events = []

    def origin(self, e):
        if isinstance(e, ast.Name):
            if e.id in self.params:
                return f"(OShared {coq_str_lit(e.id)})"
            return f"(OVar {coq_str_lit(e.id)})"
        if isinstance(e, (ast.Attribute, ast.Subscript)):
            rp = root_path(e)
            if rp is None:
                return "OFresh"
            root, path = rp
            if root == "self" or root in self.params:
                return f"(OShared {coq_str_lit(path)})"
            return f"(OVar {coq_str_lit(root)})"       # part of a local object: aliases that local
        if isinstance(e, ast.IfExp):
            a, b = self.origin(e.body), self.origin(e.orelse)
            if a == b or b == "OFresh":
                return a
            if a == "OFresh":
                return b
            return a if a.startswith("(OShared") else b       # both non-fresh: either is a sound (non-fresh) summary
        return "OFresh"        # calls (incl. .copy()), literals, comprehensions, arithmetic: new objects

    def has_call(self, node):
        return any(isinstance(n, (ast.Call, ast.Raise)) for n in ast.walk(node))

    def mutate_target(self, tgt):
        """assignment / deletion target that is a Subscript or Attribute (not a plain name)"""
        rp = root_path(tgt)
        if rp is None:
            raise Unsupported("mutation target " + ast.unparse(tgt))
        root, path = rp
        if isinstance(tgt, ast.Attribute) and isinstance(tgt.value, ast.Name) and tgt.value.id == "self":
            self.events.append(f"AssignAttr {coq_str_lit(tgt.attr)}")
        elif root == "self" or root in self.params:
            self.events.append(f"MutateShared {coq_str_lit(path)}")
        else:
            self.events.append(f"Mutate {coq_str_lit(root)}")

    def calls_in(self, node):
        for n in ast.walk(node):
            if isinstance(n, ast.Call) and isinstance(n.func, ast.Attribute):
                if n.func.attr in MUTATORS:
                    rp = root_path(n.func.value)
                    if rp is None:
                        continue               # mutator on a temporary
                    root, path = rp
                    if root == "self" or root in self.params:
                        self.events.append(f"MutateShared {coq_str_lit(path)}")
                    else:
                        self.events.append(f"Mutate {coq_str_lit(root)}")
                if isinstance(n.func.value, ast.Name) and n.func.value.id == "self" and n.func.attr in SELF_MUTATORS:
                    self.events.append(f"MutateShared {coq_str_lit('self')}")

    def stmt(self, s):
        if isinstance(s, ast.Expr) and isinstance(s.value, ast.Constant):
            return
        if isinstance(s, (ast.Assign, ast.AnnAssign, ast.AugAssign)):
            val = s.value
            if val is None:
                return
            if self.has_call(val):
                self.events.append("MayRaise")
            self.calls_in(val)
            targets = s.targets if isinstance(s, ast.Assign) else [s.target]
            for t in targets:
                if isinstance(t, ast.Name):
                    if isinstance(s, ast.AugAssign):
                        self.events.append(f"Bind {coq_str_lit(t.id)} OFresh")   # x op= e rebinds (immutable numbers) or may mutate: treat lists below
                    else:
                        self.events.append(f"Bind {coq_str_lit(t.id)} {self.origin(val)}")
                elif isinstance(t, ast.Tuple) and all(isinstance(x, ast.Name) for x in t.elts):
                    # x, y, z = f(...): results of a call are fresh; of a tuple expression: element-wise
                    if isinstance(val, ast.Tuple) and len(val.elts) == len(t.elts):
                        for x, v in zip(t.elts, val.elts):
                            self.events.append(f"Bind {coq_str_lit(x.id)} {self.origin(v)}")
                    else:
                        o = self.origin(val)
                        if o != "OFresh" and not (isinstance(val, ast.Call) and isinstance(val.func, ast.Attribute)
                                                  and isinstance(val.func.value, ast.Name) and val.func.value.id == "self"):
                            pass
                        # self.<helper>() returning several objects: summarised by the helper's own return summary
                        if isinstance(val, ast.Call) and isinstance(val.func, ast.Attribute) and isinstance(val.func.value, ast.Name) \
                                and val.func.value.id == "self" and val.func.attr in self.helper_returns:
                            rets = self.helper_returns[val.func.attr]
                            if len(rets) != len(t.elts):
                                raise Unsupported("helper arity")
                            for x, r in zip(t.elts, rets):
                                self.events.append(f"Bind {coq_str_lit(x.id)} {r}")
                        else:
                            for x in t.elts:
                                self.events.append(f"Bind {coq_str_lit(x.id)} {o if o.startswith('(OShared') else 'OFresh'}")
                else:
                    self.mutate_target(t)
            return
        if isinstance(s, ast.Expr):
            if self.has_call(s.value):
                self.events.append("MayRaise")
            self.calls_in(s.value)
            return
        if isinstance(s, ast.Delete):
            for t in s.targets:
                if isinstance(t, ast.Name):
                    continue
                self.mutate_target(t)
            return
        if isinstance(s, ast.Raise):
            self.events.append("MayRaise")
            return
        if isinstance(s, ast.Return):
            if s.value is not None:
                if self.has_call(s.value):
                    self.events.append("MayRaise")
                self.calls_in(s.value)
            return
        if isinstance(s, ast.If):
            if self.has_call(s.test):
                self.events.append("MayRaise")
            self.calls_in(s.test)
            for x in s.body + s.orelse:
                self.stmt(x)
            return
        if isinstance(s, (ast.For, ast.While)):
            it = s.iter if isinstance(s, ast.For) else s.test
            if self.has_call(it):
                self.events.append("MayRaise")
            self.calls_in(it)
            if isinstance(s, ast.For):
                for n in ast.walk(s.target):
                    if isinstance(n, ast.Name):
                        self.events.append(f"Bind {coq_str_lit(n.id)} OFresh")      # loop variables hold keys / numbers
            for x in s.body + s.orelse:
                self.stmt(x)
            return
        if isinstance(s, ast.Try):
            for x in s.body + [y for h in s.handlers for y in h.body] + s.orelse + s.finalbody:
                self.stmt(x)
            return
        if isinstance(s, (ast.Pass, ast.Assert)):
            if isinstance(s, ast.Assert):
                self.events.append("MayRaise")
            return
        if isinstance(s, ast.With):
            self.events.append("MayRaise")
            for x in s.body:
                self.stmt(x)
            return
        raise Unsupported("statement " + type(s).__name__)


def returns_of(fn, eff):
    """origins of the returned tuple of a helper (for x, y, z = self.helper())"""
    env = {}
    for ev in eff.events:
        if ev.startswith("Bind "):
            parts = ev.split(" ", 2)
            env[parts[1]] = parts[2]
    for s in ast.walk(fn):
        if isinstance(s, ast.Return) and isinstance(s.value, ast.Tuple):
            out = []
            for e in s.value.elts:
                if isinstance(e, ast.Name):
                    o = env.get(coq_str_lit(e.id), "OFresh")
                    # resolve one level of OVar
                    if o.startswith("(OVar"):
                        o = env.get(o[6:-1], "OFresh")
                    out.append(o)
                else:
                    out.append("OFresh")
            return out
    return None


METHODS = [  # (class, method, kind)   kind: pure | mutator
    ("AbstractInventory", "numbers", "pure"), ("AbstractInventory", "activities", "pure"), ("AbstractInventory", "masses", "pure"),
    ("AbstractInventory", "moles", "pure"), ("AbstractInventory", "activity_fractions", "pure"), ("AbstractInventory", "mass_fractions", "pure"),
    ("AbstractInventory", "mole_fractions", "pure"), ("AbstractInventory", "__add__", "pure"), ("AbstractInventory", "__sub__", "pure"),
    ("AbstractInventory", "__mul__", "pure"), ("AbstractInventory", "__rmul__", "pure"), ("AbstractInventory", "__truediv__", "pure"),
    ("AbstractInventory", "_convert_decay_time", "pure"), ("AbstractInventory", "_setup_decay_calc", "pure"),
    ("AbstractInventory", "_perform_decay_calc", "pure"), ("AbstractInventory", "half_lives", "pure"), ("AbstractInventory", "progeny", "pure"),
    ("AbstractInventory", "branching_fractions", "pure"), ("AbstractInventory", "decay_modes", "pure"),
    ("AbstractInventory", "decay_time_series_pandas", "pure"), ("AbstractInventory", "decay_time_series", "pure"),
    ("AbstractInventory", "plot", "pure"), ("AbstractInventory", "to_csv", "pure"), ("AbstractInventory", "__eq__", "pure"),
    ("AbstractInventory", "__ne__", "pure"), ("AbstractInventory", "_convert_to_number", "pure"),
    ("Inventory", "decay", "pure"), ("Inventory", "cumulative_decays", "pure"), ("Inventory", "__repr__", "pure"),
    ("InventoryHP", "numbers", "pure"), ("InventoryHP", "activities", "pure"), ("InventoryHP", "masses", "pure"), ("InventoryHP", "moles", "pure"),
    ("InventoryHP", "decay", "pure"), ("InventoryHP", "cumulative_decays", "pure"), ("InventoryHP", "plot", "pure"), ("InventoryHP", "__repr__", "pure"),
    ("AbstractInventory", "add", "mutator"), ("AbstractInventory", "subtract", "mutator"), ("AbstractInventory", "_", "mutator"),
]


def main(outpath):
    tree = ast.parse(open(os.path.join(REPO, "radioactivedecay/inventory.py"), encoding="utf-8").read())
    classes = {c.name: c for c in tree.body if isinstance(c, ast.ClassDef)}
    out = ["(* GENERATED by tools/tr_effects.py from radioactivedecay/inventory.py -- do not edit *)",
           "From Coq Require Import NArith List String.", "From RD Require Import Base Model.Effects.",
           "Import ListNotations.", "Local Open Scope string_scope.", ""]
    helper_returns = {}
    defs = []
    # helper first (its return summary is used by the callers)
    order = sorted(METHODS, key=lambda m: 0 if m[1] == "_setup_decay_calc" else 1)
    for cls, name, kind in order:
        fns = [f for f in classes[cls].body if isinstance(f, ast.FunctionDef) and f.name == name]
        if not fns:
            raise Unsupported(f"{cls}.{name} not found")
        for k, fn in enumerate(fns):
            params = [a.arg for a in fn.args.args if a.arg != "self"] + [a.arg for a in fn.args.kwonlyargs]
            if fn.args.kwarg:
                params.append(fn.args.kwarg.arg)
            eff = Eff(params)
            eff.helper_returns = helper_returns
            for s in fn.body:
                eff.stmt(s)
            if name == "_setup_decay_calc":
                helper_returns[name] = returns_of(fn, eff)
                if helper_returns[name] is None:
                    raise Unsupported("_setup_decay_calc does not return a tuple")
            base = "remove_variant" if name == "_" else (("op" + name.strip("_")) if name.startswith("__") else name.lstrip("_"))
            cname = f"eff_{cls}_{base}" + (f"_{k}" if len(fns) > 1 else "")
            defs.append((cname, kind, eff.events))
            out.append(f"Definition {cname} : list ev := [\n  " + ";\n  ".join(eff.events) + "\n].\n" if eff.events
                       else f"Definition {cname} : list ev := [].\n")
    out.append("Definition helper_setup_returns : list origin := [" + "; ".join(helper_returns["_setup_decay_calc"]) + "].\n")
    out.append("Definition pure_methods : list (str * list ev) := [\n  " + ";\n  ".join(
        f"({coq_str_lit(n)}, {n})" for n, k, _ in defs if k == "pure") + "\n].\n")
    out.append("Definition mutator_methods : list (str * list ev) := [\n  " + ";\n  ".join(
        f"({coq_str_lit(n)}, {n})" for n, k, _ in defs if k == "mutator") + "\n].\n")
    return {"changed": write_if_changed(outpath, "\n".join(out) + "\n"), "methods": len(defs)}


if __name__ == "__main__":
    here = os.path.dirname(os.path.abspath(__file__))
    try:
        print(main(os.path.normpath(os.path.join(here, "..", "coq", "Gen", "EffectsGen.v"))))
    except Unsupported as e:
        print(f"TRANSLATION-ERROR tr_effects: {e}")
        sys.exit(3)
