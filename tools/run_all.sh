#!/bin/bash
# run every claimed check (quick) on the current tree; print one summary line each
cd "$(dirname "$0")/.."
for p in $(python3 -c "import json; print(' '.join(c['property_id'] for c in json.load(open('MANIFEST.json'))['checks']))"); do
  s=$(date +%s)
  out=$(./check $p --tier ${1:-quick} 2>&1 | grep -v "conda.cli")
  rc=$?
  echo "$p rc=$rc $(( $(date +%s) - s ))s :: $(echo "$out" | grep -E '^(VIOLATION|KNOWN-FINDING)' | cut -c1-160 | tr '\n' '|') $(echo "$out" | tail -1 | cut -c1-200)"
done
