(* C17 - Equality and hashing are consistent with content (model: Model/Equality.v). *)
From Coq Require Import ZArith NArith List Bool.
From RD Require Import Base Lib.Py Model.Inventory Model.Equality.
From RD Require Proofs.EqualityP.
Import ListNotations.

Section AnyValueDomain.
  Context {V : Type} (veq : V -> V -> bool).
  Hypothesis veq_refl : forall x, veq x x = true.
  Hypothesis veq_sym : forall x y, veq x y = veq y x.
  Hypothesis veq_trans : forall x y z, veq x y = true -> veq y z = true -> veq x z = true.
  Definition wf (x : @invobj V) : Prop := NoDup (map fst (io_contents x)).

  Theorem inv_eq_refl : forall x, wf x -> inv_eq veq x x = true.
  Proof. exact (Proofs.EqualityP.inv_eq_refl veq veq_refl). Qed.

  Theorem inv_eq_sym : forall x y, wf x -> wf y -> inv_eq veq x y = inv_eq veq y x.
  Proof. exact (Proofs.EqualityP.inv_eq_sym veq veq_sym). Qed.

  Theorem inv_eq_trans : forall x y z, wf x -> wf y -> wf z ->
    inv_eq veq x y = true -> inv_eq veq y z = true -> inv_eq veq x z = true.
  Proof. exact (Proofs.EqualityP.inv_eq_trans veq veq_trans). Qed.

  Theorem inv_ne_negation : forall x y, inv_ne veq x y = negb (inv_eq veq x y).
  Proof. exact (Proofs.EqualityP.inv_ne_negation veq). Qed.

  (* equal exactly when they denote the same map from nuclides to (equal) amounts on equal data sets *)
  Theorem inv_eq_iff_same_map : forall x y, wf x -> wf y ->
    (inv_eq veq x y = true <->
     (forall k, match d_get (io_contents x) k, d_get (io_contents y) k with
                | Some a, Some b => veq a b = true
                | None, None => True
                | _, _ => False
                end) /\ ds_eq (io_ds x) (io_ds y) = true).
  Proof. exact (Proofs.EqualityP.inv_eq_iff_same_map veq). Qed.

  (* any difference in the nuclide set, in one amount, or in the data set makes them unequal *)
  Theorem difference_detected : forall x y k, wf x -> wf y ->
    (match d_get (io_contents x) k, d_get (io_contents y) k with
     | Some a, Some b => veq a b = false
     | None, None => False
     | _, _ => True
     end \/ ds_eq (io_ds x) (io_ds y) = false) -> inv_eq veq x y = false.
  Proof. exact (Proofs.EqualityP.difference_detected veq). Qed.

  Theorem unrelated_false : forall x, py_eq veq x (@PUnrelated V) = false /\ py_ne veq x (@PUnrelated V) = true.
  Proof. exact (Proofs.EqualityP.unrelated_false veq). Qed.
End AnyValueDomain.

(* equal nuclides hash equal, for every hash function; data-set equality is an equivalence *)
Theorem nuclide_eq_hash : forall (H : str -> str -> Z) x y, nuc_eq x y = true -> nuc_hash H x = nuc_hash H y.
Proof. exact Proofs.EqualityP.nuclide_eq_hash. Qed.

Theorem ds_eq_equivalence : (forall x, ds_eq x x = true) /\ (forall x y, ds_eq x y = ds_eq y x) /\
  (forall x y z, ds_eq x y = true -> ds_eq y z = true -> ds_eq x z = true).
Proof. exact Proofs.EqualityP.ds_eq_equivalence. Qed.
