"""C10 entry-point stream: invalid nuclides / ids / key types / amounts / units at every entry point."""
import json
import corr_units as U

BAD_STRINGS = ["", "99", "H", "H-", "-3", "Xx-3", "H-301", "H-3mm", "H-3o", "3H3", "H 3 m n", "H--3", "ı131", "١H",
               "H-3é", "Fm-258", "Tc-99m1", "99mmTc", "NI", "U-0238x"]
BAD_IDS = [0, -1, 10030007, 862220010, 1190010000, 10**10, -10030000, 9999, 10000, 10039999]
BAD_UNITS = ["", "bq", "Kg", "sec", "readable", "activity_frac", "kgs", "µg", "MOL", None, 5]
BAD_ROWS = ["H-3", "H-3,1.0,num,extra", "Xx-3,1.0", "H-3,abc", "H-3,-1.0", "H-3,nan", ",1.0", "H-3,1.0,parsecs", "99,1.0",
            "He-3,1.0,Bq", "862220010,1.0"]
STABLE = ["He-3", "Pb-208", "N-14"]
BAD_TIME_UNITS = ["", "S", "Y", "sec ", "minutes", "w", "Ky", "Bq", "kg", "bogus", "readable ", "µs"]


def expected(label):
    """the documented outcome classes for an entry-point call"""
    if "badkey=" in label:
        k = label.split("badkey=")[1]
        if k in ("bool", "npstr"):                   # bool is an int, numpy.str_ is a str: ordinary ids / names
            return {"accepted", "ValueError", "NuclideStrError"}
        if ".remove " in label:
            return {"NotImplementedError"}
        return {"TypeError"}
    if "equal-valued" in label:
        return None
    return {"ValueError", "NuclideStrError"}


def run(ctx, rng, streams, viol, samples):
    res = U.run_impl("impl_entry.py", {"bad_strings": BAD_STRINGS, "bad_ids": BAD_IDS, "bad_units": BAD_UNITS,
                                       "bad_rows": BAD_ROWS, "stable": STABLE, "bad_time_units": BAD_TIME_UNITS}, timeout=1800)
    bad = []
    kinds = {}
    for label, outcome, detail in res:
        kinds[outcome] = kinds.get(outcome, 0) + 1
        exp = expected(label)
        if exp is None:
            vals = json.loads(detail)
            ref = vals.get("float")
            for k, v in vals.items():
                if v != ref:
                    bad.append((label, f"amount type {k} gives {v}, float gives {ref}"))
            continue
        if outcome not in exp:
            bad.append((label, f"{outcome} ({detail})" if outcome != "accepted" else f"silently accepted ({detail})"))
    streams["entry_points"] = {"cases": len(res), "outcomes": kinds, "impl_property_failures": len(bad),
                               "what": "every entry point taking a nuclide, unit or amount x malformed names / ids / key types / amounts / units / "
                                       "stable-nuclide activities / CSV rows; equal-valued int/float/NumPy/Rational amounts"}
    seen = set()
    for label, why in bad:
        k = label.split(" ", 1)[1] + "|" + why.split(" ")[0]
        if k in seen:
            continue
        seen.add(k)
        if len(seen) > 8:
            break
        viol.append({"name": f"entry-{len(seen)}", "found_input": True, "key": f"entry:{label}",
                     "payload": {"fails": f"{label}: {why}", "entry": label.split(" ")[0], "expected": sorted(expected(label) or [])}})
    samples.append({"entry_point_case": res[0]})
