(* Hand-written model over R of Inventory.decay / cumulative_decays as the code computes them:
   the index set is read off the sparsity pattern of the columns of C belonging to the inventory's
   nuclides, the diagonal matrix E is filled only at those indices (zero elsewhere), and the result is
   C . E . C^-1 . n0 restricted to those indices.  (Tie: tools/tr_shapes.py records the source of
   decay, cumulative_decays, _setup_decay_calc, _perform_decay_calc of both classes.)  Definitions only. *)
From Coq Require Import Reals ZArith NArith List Bool Arith.
From RD Require Import Base Model.DecayR Lib.Sparse Lib.CertQ Model.Dataset.
Import ListNotations.
Local Open Scope R_scope.

Section DM.
  Variable d : dataset.
  Let n := nn d.

  (* the work vector: vector_n0[idx] = contents[nuclide] *)
  Fixpoint n0_of (contents : list (nat * R)) (j : nat) : R :=
    match contents with
    | [] => 0
    | (k, v) :: r => if Nat.eqb k j then v else n0_of r j
    end.

  (* scipy_data.matrix_c[:, idx].nonzero()[0] for every nuclide of the inventory *)
  Definition col_hit (contents : list (nat * R)) (i : nat) : bool :=
    existsb (fun jv => existsb (N.eqb (N.of_nat (fst jv))) (row_cols_q (nth i (ds_c d) []))) contents.
  Definition indices (contents : list (nat * R)) : list nat := filter (col_hit contents) (seq 0 n).

  Definition in_idx (idxs : list nat) (k : nat) : bool := existsb (Nat.eqb k) idxs.

  (* matrix_e.data[indices] = exp(-decay_time * decay_consts[indices]) ; zero elsewhere *)
  Definition Edecay (idxs : list nat) (t : R) (k : nat) : R :=
    if in_idx idxs k then exp (- lam (mur d) k * t) else 0.
  (* cumulative_decays: (1 - exp(-lambda t)) / lambda at the radioactive indices; zero elsewhere *)
  Definition Ecumul (idxs : list nat) (t : R) (k : nat) : R :=
    if in_idx idxs k && negb (stableb d k) then (1 - exp (- lam (mur d) k * t)) / lam (mur d) k else 0.

  Definition product (E : nat -> R) (n0 : nat -> R) (i : nat) : R :=
    sumn n (fun k => Cr d i k * (E k * sumn n (fun j => Cir d k j * n0 j))).

  Definition decay_model (contents : list (nat * R)) (t : R) : list (nat * R) :=
    let idxs := indices contents in
    map (fun i => (i, product (Edecay idxs t) (n0_of contents) i)) idxs.

  Definition cumulative_model (contents : list (nat * R)) (t : R) : list (nat * R) :=
    let idxs := indices contents in
    map (fun i => (i, lam (mur d) i * product (Ecumul idxs t) (n0_of contents) i))
        (filter (fun i => negb (stableb d i)) idxs).
End DM.
