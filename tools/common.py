"""Shared plumbing for the checks: paths, regeneration, the Coq build, assumptions, evidence,
known findings, replay files."""
import fcntl
import hashlib
import json
import os
import re
import subprocess
import sys
import time

VERIF = os.path.normpath(os.path.join(os.path.dirname(os.path.abspath(__file__)), ".."))
COQ = os.path.join(VERIF, "coq")
TOOLS = os.path.join(VERIF, "tools")
REPO = os.environ.get("RD_REPO", "/repo")
PY = "/venv/bin/python"
EVID = os.environ.get("VERIF_EVIDENCE_DIR") or os.path.join(VERIF, "evidence")   # (seeded-mutant runs write elsewhere)
REPLAYS = os.environ.get("VERIF_REPLAY_DIR") or os.path.join(VERIF, "replays")
SCRATCH = os.path.join(VERIF, ".scratch")      # build / case files (ignored by git)
NPROC = os.cpu_count() or 8

IMPL_ENV = dict(os.environ, PYTHONPATH=REPO, PYTHONHASHSEED="0", MPLBACKEND="Agg",
                RADIOACTIVEDECAY_VERIF="1", PYTHONDONTWRITEBYTECODE="1", VERIF_SYNTH_DIR=os.path.join(SCRATCH, "synth"))

ALLOWED_AXIOMS = {
    # Coq standard library real numbers / classical logic (via Reals, Coquelicot, Interval, Flocq)
    "ClassicalDedekindReals.sig_not_dec", "ClassicalDedekindReals.sig_forall_dec",
    "FunctionalExtensionality.functional_extensionality_dep", "Classical_Prop.classic",
    "ProofIrrelevance.proof_irrelevance", "Eqdep.Eq_rect_eq.eq_rect_eq", "JMeq.JMeq_eq",
    "Epsilon.epsilon_statement", "ClassicalEpsilon.constructive_indefinite_description",
    "PropExtensionality.propositional_extensionality",
}
# primitive integers / floats / arrays: kernel primitives whose specifications the standard
# library declares as axioms (Uint63, PrimFloat/FloatAxioms); accepted by prefix
ALLOWED_PREFIXES = ("Uint63.", "PrimInt63.", "PrimFloat.", "FloatAxioms.", "FloatOps.", "Sint63.",
                    "Uint63Axioms.", "CarryType.", "PrimArray.", "PArray.")


def sh(cmd, timeout=None, cwd=None, env=None, input=None):
    p = subprocess.run(cmd, shell=isinstance(cmd, str), cwd=cwd, env=env, input=input,
                       stdout=subprocess.PIPE, stderr=subprocess.STDOUT, timeout=timeout, text=True)
    return p.returncode, p.stdout


class Lock:
    def __init__(self, name="build"):
        os.makedirs(SCRATCH, exist_ok=True)
        self.path = os.path.join(SCRATCH, name + ".lock")

    def __enter__(self):
        self.f = open(self.path, "w")
        fcntl.flock(self.f, fcntl.LOCK_EX)
        return self

    def __exit__(self, *a):
        fcntl.flock(self.f, fcntl.LOCK_UN)
        self.f.close()


# ---------------------------------------------------------------- regeneration
TRANSLATORS = [
    ("tr_data", [PY, os.path.join(TOOLS, "tr_data.py")]),
    ("synth_dataset", [PY, os.path.join(TOOLS, "synth_dataset.py"), os.path.join(SCRATCH, "synth")]),
    ("tr_data_synth", [PY, os.path.join(TOOLS, "tr_data.py"), "--dir", os.path.join(SCRATCH, "synth"), "--module", "Synth"]),
    ("tr_tables", [PY, os.path.join(TOOLS, "tr_tables.py")]),
    ("tr_pure", [PY, os.path.join(TOOLS, "tr_pure.py")]),
    ("tr_effects", [PY, os.path.join(TOOLS, "tr_effects.py")]),
    ("tr_shapes", [PY, os.path.join(TOOLS, "tr_shapes.py")]),
    ("tr_unicode", [PY, os.path.join(TOOLS, "tr_unicode.py")]),
]


def regenerate():
    """Run every translator against REPO's working tree. -> {name: (ok, message)}"""
    res = {}
    env = dict(os.environ, RD_REPO=REPO, PYTHONDONTWRITEBYTECODE="1", PYTHONHASHSEED="0")
    for name, cmd in TRANSLATORS:
        if not os.path.exists(cmd[1]):
            continue
        rc, out = sh(cmd, timeout=600, env=env)
        out = "\n".join(l for l in out.splitlines() if "conda.cli" not in l)
        res[name] = (rc == 0, out.strip()[-2000:])
    return res


def coq_files():
    out = []
    for sub in ("Lib", "Gen", "Model", "Proofs", "Props"):
        for root, _, files in os.walk(os.path.join(COQ, sub)):
            for f in sorted(files):
                if f.endswith(".v"):
                    out.append(os.path.relpath(os.path.join(root, f), COQ))
    return sorted(out)


COQPROJECT_HEAD = """-Q . RD
-arg -w -arg -notation-overridden,-deprecated-hint-without-locality,-deprecated-instance-without-locality,-ambiguous-paths,-deprecated-syntactic-definition,-deprecated
"""


def build(targets=None, timeout=3000):
    """(Re)build the Coq project. Returns (ok, log). Individual failures are found by vo_ok()."""
    files = coq_files()
    proj = COQPROJECT_HEAD + "\n".join(files) + "\n"
    pp = os.path.join(COQ, "_CoqProject")
    old = open(pp).read() if os.path.exists(pp) else ""
    if old != proj or not os.path.exists(os.path.join(COQ, "Makefile")):
        with open(pp, "w") as f:
            f.write(proj)
        rc, out = sh("coq_makefile -f _CoqProject -o Makefile", cwd=COQ, timeout=120)
        if rc != 0:
            return False, out
    tg = " ".join(targets) if targets else ""
    rc, out = sh(f"make -k -j{NPROC} COQC='timeout 1500 coqc' {tg}", cwd=COQ, timeout=timeout)
    out = "\n".join(l for l in out.splitlines() if "conda.cli" not in l)
    return rc == 0, out


def vo_ok(vfile):
    """vfile (relative to coq/) has an up-to-date .vo"""
    v = os.path.join(COQ, vfile)
    vo = v[:-2] + ".vo"
    return os.path.exists(v) and os.path.exists(vo) and os.path.getmtime(vo) >= os.path.getmtime(v)


def error_for(log, vfile):
    """extract the Coq error message for a file from the make log"""
    m = re.search(r'File "\./' + re.escape(vfile) + r'", line (\d+).*?\n(Error:.*?)(?=\nmake|\nCOQC|\nFile|\Z)',
                  log, re.S)
    if m:
        return f"line {m.group(1)}: " + " ".join(m.group(2).split())[:600]
    return None


def scan_forbidden():
    """grep the hand-written development for forbidden constructs"""
    bad = []
    pat = re.compile(r"\b(Admitted|admit|Axiom|Axioms|Parameter|Parameters|Conjecture|Unset\s+Guard|"
                     r"bypass_check|Admit\s+Obligations|type-in-type|impredicative-set|"
                     r"Unset\s+Universe\s+Checking|Unset\s+Positivity)\b")
    for vf in coq_files():
        with open(os.path.join(COQ, vf), encoding="utf-8") as f:
            txt = f.read()
        txt = re.sub(r"\(\*.*?\*\)", "", txt, flags=re.S)
        for m in pat.finditer(txt):
            bad.append(f"{vf}: {m.group(0)}")
    return bad


def print_assumptions(module, theorems):
    """-> {theorem: [axiom names]} ; cached on the hash of the module's .vo"""
    vo = os.path.join(COQ, module.replace(".", "/") + ".vo")
    h = hashlib.sha256(open(vo, "rb").read()).hexdigest()[:16]
    cache = os.path.join(SCRATCH, f"assum_{module}_{h}.json")
    if os.path.exists(cache):
        return json.load(open(cache))
    src = f"From RD Require Import {module}.\n" + "".join(
        f'Print Assumptions {t}.\nGoal True. idtac "@@END". Abort.\n' for t in theorems)
    os.makedirs(SCRATCH, exist_ok=True)
    tmpv = os.path.join(SCRATCH, f"assum_{module.replace('.', '_')}.v")
    with open(tmpv, "w") as f:
        f.write(src)
    rc, out = sh(["coqc", "-Q", COQ, "RD", tmpv], timeout=900)
    if rc != 0:
        raise RuntimeError("Print Assumptions failed: " + out[-1500:])
    chunks = out.split("@@END")
    res = {}
    for t, ch in zip(theorems, chunks):
        if "Closed under the global context" in ch:
            res[t] = []
        else:
            res[t] = sorted(set(re.findall(r"^([A-Za-z_][\w.']*)\s*:", ch, re.M)) - {"Axioms"})
    json.dump(res, open(cache, "w"))
    return res


def axioms_allowed(ax):
    return ax in ALLOWED_AXIOMS or ax.startswith(ALLOWED_PREFIXES) or any(
        ax.endswith("." + a.split(".")[-1]) and a.split(".")[-1] in ax for a in ALLOWED_AXIOMS)


# ---------------------------------------------------------------- findings / evidence / replay
def known_findings():
    p = os.path.join(VERIF, "known_findings.json")
    if not os.path.exists(p):
        return []
    return json.load(open(p))["findings"]


def match_known(pid, key):
    """key: canonical string identifying the failing input / call site"""
    for f in known_findings():
        if f.get("property") == pid and f.get("status") == "known" and f.get("match") == key:
            return f
    return None


def write_replay(pid, name, payload):
    os.makedirs(REPLAYS, exist_ok=True)
    path = os.path.join(REPLAYS, f"{pid}-{name}.json")
    with open(path, "w") as f:
        json.dump(payload, f, indent=1, default=str, ensure_ascii=False)
    return path


def write_evidence(pid, tier, seed, coverage, assumptions, wall, violations):
    os.makedirs(EVID, exist_ok=True)
    ev = {"property_id": pid, "tier": tier, "seed": int(seed), "level": "proof",
          "coverage": coverage, "assumptions": assumptions, "wall_s": round(wall, 2),
          "violations": int(violations)}
    with open(os.path.join(EVID, f"{pid}.json"), "w") as f:
        json.dump(ev, f, indent=1, default=str, ensure_ascii=False)
    return ev


def sha_file(p):
    return hashlib.sha256(open(p, "rb").read()).hexdigest()
