(* Proofs for C12 (Props/C12.v): the row-seam model of read_csv / to_csv (Model/Csv.v) over the inventory
   state machine, for every number domain and data set. *)
From Coq Require Import ZArith NArith List Bool.
From RD Require Import Base Lib.Py Lib.Num Gen.Tables Gen.ConvGen Gen.InvGen Gen.UtilsGen Gen.DispatchGen
  Model.Inventory Model.Series Model.Csv.
Import ListNotations.

(* dmap_res keeps the keys, hence the length *)
Lemma dmap_res_keys : forall {T} (f : str -> T -> res T) (d d' : list (str * T)),
  dmap_res f d = OK d' -> map fst d' = map fst d.
Proof.
  intros T f. induction d as [|[k v] r IH]; intros d' H; cbn [dmap_res] in H.
  - inversion H. reflexivity.
  - destruct (f k v) as [v'|e]; cbn [bind] in H; [|discriminate].
    destruct (dmap_res f r) as [r'|e] eqn:E; cbn [bind] in H; [|discriminate].
    inversion H; subst. cbn [map fst]. f_equal. apply IH. reflexivity.
Qed.

Lemma bind_dmap_keys : forall {T} (f : str -> T -> res T) (g : list (str * T) -> res (list (str * T))) d ro,
  (forall x, g x = OK x) -> bind (dmap_res f d) g = OK ro -> map fst ro = map fst d.
Proof.
  intros T f g d ro Hg H.
  destruct (dmap_res f d) as [r|e] eqn:E; cbn [bind] in H; [|discriminate].
  rewrite Hg in H. inversion H; subst. eapply dmap_res_keys. exact E.
Qed.

Section CsvP.
  Context {T : Type} (ops : numops T).
  Context (activity_units mass_units moles_units : list (str * T)).
  Context (avogadro : T) (names : list str) (decay_consts atomic_masses : list T).
  Variables (amount_ok : T -> bool) (normalise : T -> T).
  Variable parse_float : str -> res T.
  Variable print_num : T -> str.
  Notation read_rows := (read_rows ops activity_units mass_units moles_units avogadro names decay_consts atomic_masses amount_ok normalise parse_float).
  Notation add_row := (add_row ops activity_units mass_units moles_units avogadro names decay_consts atomic_masses amount_ok normalise parse_float).
  Notation construct := (construct ops activity_units mass_units moles_units avogadro names decay_consts atomic_masses amount_ok normalise).
  Notation m_add := (m_add ops activity_units mass_units moles_units avogadro names decay_consts atomic_masses amount_ok normalise).
  Notation parse_row := (parse_row parse_float).
  Notation readout_by_code := (readout_by_code ops activity_units mass_units moles_units avogadro names decay_consts atomic_masses).
  Notation to_rows := (to_rows ops activity_units mass_units moles_units avogadro names decay_consts atomic_masses print_num).

  Theorem unit_precedence : forall u units,
    effective_unit (Some u) units = (match u with [] => (match units with Some a => a | None => default_units end) | _ => u end) /\
    effective_unit None units = (match units with Some a => a | None => default_units end).
  Proof. intros u units. split; [destruct u; reflexivity | reflexivity]. Qed.

  Theorem skip_rows_exact : forall lines k units, read_rows lines k units = read_rows (skipn k lines) 0 units.
  Proof. intros lines k units. unfold Csv.read_rows. cbn [skipn]. reflexivity. Qed.

  Theorem no_rows_refused : forall units, read_rows [] 0 units = Raise ValueError.
  Proof. intros units. reflexivity. Qed.

  Theorem digit_names_are_ids : forall nuc qty rest du key x ru,
    parse_row (nuc :: qty :: rest) du = OK (key, x, ru) ->
    (s_isnumeric nuc = true -> exists z, s_int nuc = OK z /\ key = VInt z) /\
    (s_isnumeric nuc = false -> key = VStr nuc) /\
    (rest = [] /\ ru = du \/ exists u, rest = [u] /\ ru = Some u).
  Proof.
    intros nuc qty rest du key x ru H. unfold Csv.parse_row in H.
    destruct rest as [|u [|u2 rest']]; cbv beta iota in H; [| |discriminate];
      destruct (s_isnumeric nuc) eqn:Hn;
      try (destruct (s_int nuc) as [z|e1] eqn:Hz); cbn [bind] in H; try discriminate;
      destruct (parse_float qty) as [y|e2] eqn:Hq; cbn [bind] in H; try discriminate;
      inversion H; subst; clear H;
      (split; [intro Hc; try discriminate; try (exists z; split; reflexivity)
              |split; [intro Hc; try discriminate; reflexivity|]]);
      first [left; split; reflexivity | right; eexists; split; reflexivity].
  Qed.

  Theorem equals_direct_construction : forall r0 rest units key x ru,
    parse_row r0 units = OK (key, x, ru) ->
    read_rows (r0 :: rest) 0 units = fold_left (add_row units) rest (construct [(key, x)] (effective_unit ru units)).
  Proof.
    intros r0 rest units key x ru Hp. unfold Csv.read_rows. cbn [skipn]. rewrite Hp. cbn [bind]. reflexivity.
  Qed.

  Theorem add_row_is_add : forall units a row key x ru,
    parse_row row units = OK (key, x, ru) -> add_row units (OK a) row = m_add a [(key, x)] (effective_unit ru units).
  Proof.
    intros units a row key x ru Hp. unfold Csv.add_row. cbn [bind]. rewrite Hp. cbn [bind]. reflexivity.
  Qed.

  Theorem failing_row_fails : forall units rows e, fold_left (add_row units) rows (Raise e) = Raise e.
  Proof.
    intros units rows e. induction rows as [|r rows IH]; [reflexivity|].
    cbn [fold_left]. unfold Csv.add_row at 2. cbn [bind]. exact IH.
  Qed.

  Lemma readout_keys : forall code contents units ro,
    readout_by_code code contents units = OK ro -> map fst ro = map fst contents.
  Proof.
    intros code contents units ro H. unfold Csv.readout_by_code in H.
    destruct code as [|[[p|p|]|[p|p|]|]]; try discriminate.
    - unfold activities in H. eapply bind_dmap_keys; [|exact H]. intro y. reflexivity.
    - inversion H. reflexivity.
    - unfold masses in H. eapply bind_dmap_keys; [|exact H]. intro y. reflexivity.
    - unfold moles in H. eapply bind_dmap_keys; [|exact H]. intro y. reflexivity.
  Qed.

  Theorem to_rows_shape : forall contents units wu header rows,
    to_rows contents units wu header = OK rows ->
    exists ro, length ro = length contents /\ map fst ro = map fst contents /\
      rows = (match header with Some (h :: hs) => [h :: hs] | _ => [] end) ++
             map (fun kv => if wu then [fst kv; print_num (snd kv); units] else [fst kv; print_num (snd kv)]) ro.
  Proof.
    intros contents units wu header rows H. unfold Csv.to_rows in H.
    destruct (select chain_csv units) as [code|]; [|discriminate].
    destruct (readout_by_code code contents units) as [ro|e] eqn:Hro; cbn [bind] in H; [|discriminate].
    apply readout_keys in Hro. inversion H; subst. exists ro. split; [|split].
    - rewrite <- (map_length fst ro), <- (map_length fst contents), Hro. reflexivity.
    - exact Hro.
    - reflexivity.
  Qed.

  Theorem to_rows_unknown_unit : forall contents units wu header, select chain_csv units = None ->
    to_rows contents units wu header = Raise ValueError.
  Proof. intros contents units wu header H. unfold Csv.to_rows. rewrite H. reflexivity. Qed.
End CsvP.

Print Assumptions unit_precedence.
Print Assumptions skip_rows_exact.
Print Assumptions no_rows_refused.
Print Assumptions digit_names_are_ids.
Print Assumptions equals_direct_construction.
Print Assumptions add_row_is_add.
Print Assumptions failing_row_fails.
Print Assumptions to_rows_shape.
Print Assumptions to_rows_unknown_unit.
