"""C03 - cumulative decays equal integrated activity; atom balance closes."""
import random
import common as C
import corr_decay as D
import corr_units as U

PID = "C03"
PROPS_MODULE = "Props.C03"
THEOREMS = ["cumdecay_is_integral", "cumdecay_stable_zero", "atom_balance", "cumulative_model_is_integral",
            "reference_encloses_cumulative"]
EXTRA_PROPS = {"Props.C03b": ["decay_eval_error_w", "pf_cum_refines", "ecum_perturbation", "cum_data_error", "default_cum_certificate",
                             "cum_float_error", "default_cum_float_error"]}
REQUIRED = ["Props/C03b.v", "Model/FloatCum.v", "Proofs/CertDefault/CumCert.v", "Props/C03.v", "Model/DecayCheck.v"]
TRANSLATORS = ["tr_data", "synth_dataset", "tr_data_synth", "tr_tables", "tr_pure"]
SHAPE_KEYS = ["Inventory::cumulative_decays", "InventoryHP::cumulative_decays", "AbstractInventory::_setup_decay_calc",
              "AbstractInventory::_perform_decay_calc", "AbstractInventory::_convert_decay_time", "load_dataset"]
PARTIAL = ["default_cum_float_error (Props/C03b.v) proves for ALL inputs |cumulative_decays - exact integral| <= 1e-11 x (all initial atoms) + 2^-1000 for the "
           "double-precision class on the shipped data (assuming the stored diagonal (1-exp(-lambda t))/lambda accurate to 2^-50/lambda, checked per case; "
           "model tied bit for bit per case); the sharper ancestors-only bound and the high-precision class are decided per case against the proved enclosure",
           "cumulative_decays control flow hand-modelled over R (Model/DecayModel.v)"]
TRUSTED_BASE = [
    "Coq 8.16.1 kernel incl. vm_compute",
    "axioms: standard Reals axioms; Uint63/PrimFloat primitives",
    "translator tr_data.py; tr_shapes.py ties for cumulative_decays (both classes)",
    "coq-interval interval arithmetic",
]
ASSUMPTIONS = []


def balance_pred(c, r):
    return []


def correspondence(ctx):
    rng = random.Random(ctx["seed"] + 3)
    thorough = ctx["tier"] == "thorough"
    names, stable = U.dataset_names()
    streams, viol, samples = {}, [], []
    cases = D.gen_cases(rng, names, stable, 600 if thorough else 80, 400 if thorough else 40, "Inventory", cum_every=1, tmax=12)
    D.decay_stream(rng, cases, "check_float_decay Default", "cumulative_float", streams, viol, samples,
                   "Inventory.cumulative_decays (with decay): stable nuclides never listed; every count within 1e-11 x ancestors' atoms of the "
                   "proved enclosure of the integral of the activity; atom balance follows from the theorem for values inside the bound", shard=8)
    radio = [n for n, s in zip(names, stable) if not s]
    only = ["Sr-90", "Cs-137", "U-238"] + rng.sample(radio, 60 if thorough else 5)
    cases = D.gen_cases(rng, names, stable, 0, 30 if thorough else 3, "InventoryHP", only=only, cum_every=1, tmax=10)
    # small inventories mixing a radionuclide with stable nuclides / members of its own chain
    import numpy as np, os
    dd = np.load(os.path.join(C.REPO, "radioactivedecay/icrp107_ame2020_nubase2020/decay_data.npz"), allow_pickle=True)
    prog = {str(n): [str(x) for x in pl if str(x) != "SF"] for n, pl in zip(dd["nuclides"], dd["progeny"])}
    stab = [n for n, s in zip(names, stable) if s]
    for parent in ["Cs-137", "Sr-90"] + rng.sample(radio, 12 if thorough else 2):
        chain = D.closure_of(names, prog, [parent])
        members = [parent] + rng.sample(sorted(chain - {parent}), min(len(chain) - 1, rng.randint(1, 2))) if len(chain) > 1 else [parent]
        if rng.random() < 0.5:
            members.append(rng.choice(stab))
        cases.append({"cls": "InventoryHP", "contents": {m: float(f"{10 ** rng.uniform(3, 9):.4g}").hex() for m in set(members)},
                      "unit": "num", "t": float(f"{10 ** rng.uniform(5, 9):.4g}").hex(), "tunit": "s", "cum": True})
    D.decay_stream(rng, cases, "check_hp_decay Default", "cumulative_hp", streams, viol, samples,
                   "InventoryHP.cumulative_decays: relative 1e-13 of the proved enclosure", shard=2)
    D.balance_stream(rng, 120 if ctx["tier"] == "thorough" else 30, streams, viol, samples)
    import corr_floateval as FE
    FE.floateval_stream(rng, 400 if ctx["tier"] == "thorough" else 40, streams, viol, samples, which=("cum",))
    FE.floateval_stream(rng, 100 if ctx["tier"] == "thorough" else 20, streams, viol, samples, which=("cum",), ds="synth")
    sn, ss = D.names_of("synth")
    scases = D.gen_cases(rng, sn, ss, 100, 20, "Inventory", ds="synth", cum_every=1)
    D.decay_stream(rng, scases, "check_float_decay Synth", "cumulative_float_synth", streams, viol, samples,
                   "the same check on the synthetic data set (states p q r x, 365.25-day year, SF, branches not summing to one)",
                   shard=8, ds="synth", pre=D.PRE.replace("Model.Default", "Model.Default Model.Synth"))
    import corr_randds as RD
    RD.random_dataset_stream(rng, 10 if ctx["tier"] == "thorough" else 2, streams, viol, samples, cum=True, hp=1)
    return {"streams": streams, "violations": viol, "samples": samples}


def search_broken(ctx):
    # the obligations of this property rest on the data certificate: turn its witnesses into requests
    return D.data_witness_probe(PID, ("Inventory", "InventoryHP"))


def replay(payload):
    c = payload.get("input")
    if not isinstance(c, dict) or "contents" not in c:
        return None          # not a single decay case: the generic replay of ./check re-runs the recorded seed
    if True:
        c = dict(c, cum=True)
    return D.replay_case(c, payload.get("checker"))
