"""Implementation side of the bit-level decay stream (C01): the decayed amounts together with what the harness can
observe of the evaluation - the initial vector, the stored exponentials (numpy.exp of the same argument the library
forms) and the row orders of the intermediate sparse products C @ E and (C @ E) @ C^-1 as the running SciPy stores them.
stdin JSON: list of {"contents": {name: hex}, "t": hex, "tunit": u};  stdout JSON: per case {"e": [[k, hex]], "n0": [[j, hex]],
"rows": [[i, ce_order, m_order, value_hex]]}"""
import json, sys

def main():
    import numpy as np
    import radioactivedecay as rd
    D = rd.DEFAULTDATA
    cases = json.load(sys.stdin)
    if cases and cases[0].get("ds") == "synth":
        import os
        from radioactivedecay.decaydata import load_dataset
        D = load_dataset("synth", os.environ["VERIF_SYNTH_DIR"], load_sympy=True)
    sd = D.scipy_data
    out = []
    for c in cases:
        r = {}
        try:
            inv = rd.Inventory({k: float.fromhex(v) for k, v in c["contents"].items()}, "num", True, D)
            t = float.fromhex(c["t"])
            dec = inv.decay(t, c["tunit"]).numbers()
            secs = inv._convert_decay_time(t, c["tunit"])
            n0, indices, E = inv._setup_decay_calc()
            E.data[indices] = np.exp(-secs * sd.decay_consts[indices])
            CE = sd.matrix_c @ E
            M = CE @ sd.matrix_c_inv
            r["e"] = [[int(k), float(E.data[k]).hex()] for k in sorted(int(x) for x in indices)]
            r["n0"] = [[int(j), float(n0[j]).hex()] for j in np.nonzero(n0)[0]] + \
                      [[int(D.nuclide_dict[k]), float(v).hex()] for k, v in inv.contents.items() if v == 0]
            rows = []
            for name, v in dec.items():
                i = int(D.nuclide_dict[name])
                ce = [int(x) for x in CE.indices[CE.indptr[i]:CE.indptr[i + 1]]]
                mo = [int(x) for x in M.indices[M.indptr[i]:M.indptr[i + 1]]]
                rows.append([i, ce, mo, float(v).hex()])
            r["rows"] = rows
            r["secs"] = float(secs).hex()
            if c.get("cum"):
                cum = inv.cumulative_decays(t, c["tunit"])
                n0b, ind_b, Eb = inv._setup_decay_calc()
                lamf = sd.decay_consts
                rad = [int(x) for x in ind_b if lamf[x] > 0.0]
                for x in rad:
                    Eb[x, x] = (1.0 - np.exp(-secs * lamf[x])) / lamf[x]
                CEb = sd.matrix_c @ Eb
                Mb = CEb @ sd.matrix_c_inv
                r["e_cum"] = [[k, float(Eb.data[k]).hex()] for k in sorted(rad)]
                rows = []
                for name, v in cum.items():
                    i = int(D.nuclide_dict[name])
                    ce = [int(x) for x in CEb.indices[CEb.indptr[i]:CEb.indptr[i + 1]]]
                    mo = [int(x) for x in Mb.indices[Mb.indptr[i]:Mb.indptr[i + 1]]]
                    rows.append([i, ce, mo, float(lamf[i]).hex(), float(v).hex()])
                r["rows_cum"] = rows
        except Exception as ex:
            r["err"] = type(ex).__name__ + ": " + str(ex)[:100]
        out.append(r)
    json.dump(out, sys.stdout)
main()
