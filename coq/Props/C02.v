(* C02 - High-precision decay is exact to double rounding, at every time.
   The high-precision class evaluates the closed form with the EXACT matrices of the data set; these
   theorems say that closed form is, for ALL real t (t is a variable, not a sample) and all initial
   vectors, the unique solution of the decay ODE system of the listed data. *)
From Coq Require Import Reals ZArith NArith List Bool Arith.
From Coquelicot Require Import Coquelicot.
From Interval Require Import Real.Xreal Interval.Interval.
From RD Require Import Base Model.DecayR Lib.Sparse Lib.CertQ Model.Dataset Model.Default Model.DecayI.
From RD Require Proofs.Bateman Proofs.DatasetCert Proofs.DefaultWf Proofs.DecayEnclosure Proofs.CertDefault.Gens
  Proofs.CertDefault.Patterns.
Import ListNotations.
Local Open Scope R_scope.

Notation NtD := (Nt (nn Default) (Cr Default) (Cir Default) (mur Default)).

Theorem hp_closed_form_solves_ode : forall n0 t i, (i < nn Default)%nat ->
  is_derive (fun s => NtD n0 s i) t (sumn (nn Default) (fun m => Lam (Mr Default) i m * NtD n0 t m)).
Proof. exact (Proofs.Bateman.closed_form_solves_ode _ _ _ _ _ _ _ Proofs.DefaultWf.default_cert). Qed.

Theorem hp_closed_form_initial : forall n0 i, (i < nn Default)%nat -> NtD n0 0 i = n0 i.
Proof. exact (Proofs.Bateman.closed_form_initial _ _ _ _ _ _ _ Proofs.DefaultWf.default_cert). Qed.

Theorem hp_solution_unique : forall (n0 : nat -> R) (y : nat -> R -> R),
  (forall i, (i < nn Default)%nat -> y i 0 = n0 i) ->
  (forall i t, (i < nn Default)%nat -> is_derive (y i) t (sumn (nn Default) (fun m => Lam (Mr Default) i m * y m t))) ->
  forall i t, (i < nn Default)%nat -> y i t = NtD n0 t i.
Proof. exact (Proofs.Bateman.ode_solution_unique _ _ _ _ _ _ _ Proofs.DefaultWf.default_cert). Qed.

(* whichever pickle generation the installed SymPy selects, the matrices are the same *)
Theorem hp_generations_identical : Default18 = Default.
Proof. exact Proofs.CertDefault.Gens.generations_identical. Qed.

(* the reference values of the correspondence enclose the closed form of the shipped data *)
Theorem hp_reference_encloses_closed_form : forall prec (n0I : list (N * I.type)) (tI : I.type) (n0 : nat -> R) (t : R),
  (forall j, contains (I.convert (lookupI j n0I)) (Xreal (n0 (N.to_nat j)))) ->
  contains (I.convert tI) (Xreal t) ->
  forall i e, In (i, e) (NtI_all prec Default n0I tI) ->
    contains (I.convert e) (Xreal (NtD n0 t (N.to_nat i))).
Proof.
  exact (fun prec n0I tI n0 t => Proofs.DecayEnclosure.reference_encloses_closed_form prec Default n0I tI n0 t
           Proofs.DefaultWf.default_wf_core (proj1 Proofs.CertDefault.Patterns.default_patterns)).
Qed.
