"""Implementation side of the C06 time-unit stream (PYTHONPATH=/repo).
stdin JSON: {"cases": [{"nuc":..., "t": hex, "unit": u}], "units": [...], "halving": [names], "hp": [names]}
For every case: seconds by UnitConverterFloat.time_unit_conv, decay(t,u) vs decay(seconds,'s'),
cumulative_decays likewise, time series likewise; halving: decay(half_life(u), u) for every unit."""
import json, sys

def hx(x): return float(x).hex()

def main():
    import radioactivedecay as rd
    import numpy as np
    from radioactivedecay.converters import UnitConverterFloat
    req = json.load(sys.stdin)
    d = rd.DEFAULTDATA
    out = {"cases": [], "halving": [], "hp": []}
    for c in req["cases"]:
        t = float.fromhex(c["t"]); u = c["unit"]; name = c["nuc"]
        r = {}
        try:
            secs = UnitConverterFloat.time_unit_conv(t, u, "s", d.float_year_conv)
            r["secs"] = hx(secs)
            inv = rd.Inventory({name: 1.0e20}, "num")
            a = inv.decay(t, u).numbers(); b = inv.decay(secs, "s").numbers()
            r["decay_same"] = (list(a) == list(b)) and all(hx(a[k]) == hx(b[k]) for k in a)
            ca = inv.cumulative_decays(t, u); cb = inv.cumulative_decays(secs, "s")
            r["cum_same"] = (list(ca) == list(cb)) and all(hx(ca[k]) == hx(cb[k]) for k in ca)
            ts_a = inv.decay_time_series(np.array([0.0, t]), time_units=u, decay_units="num")
            ts_b = inv.decay_time_series(np.array([0.0, secs]), time_units="s", decay_units="num")
            r["series_same"] = all([hx(v) for v in ts_a[1][k]] == [hx(v) for v in ts_b[1][k]] for k in ts_a[1]) and list(ts_a[1]) == list(ts_b[1])
            r["first"] = hx(a[name])
        except Exception as e:
            r["err"] = type(e).__name__
        out["cases"].append(r)
    for name in req.get("halving", []):
        row = {"name": name, "left": {}}
        inv = rd.Inventory({name: 1.0}, "num")
        for u in req["units"]:
            T = d.half_life(name, u)
            row["left"][u] = hx(inv.decay(T, u).numbers()[name])
        out["halving"].append(row)
    for name in req.get("hp", []):
        row = {"name": name, "left": {}}
        inv = rd.InventoryHP({name: 1.0}, "num")
        for u in req.get("hp_units", req["units"]):
            T = d.half_life(name, u)
            row["left"][u] = hx(inv.decay(T, u).numbers()[name])
        out["hp"].append(row)
    # unknown units are refused
    bad = []
    for u in req.get("bad_units", []):
        inv = rd.Inventory({"H-3": 1.0}, "num")
        for what, f in (("decay", lambda: inv.decay(1.0, u)), ("cumulative_decays", lambda: inv.cumulative_decays(1.0, u)),
                        ("half_life", lambda: d.half_life("H-3", u)),
                        ("hp.decay", lambda: rd.InventoryHP({"H-3": 1.0}, "num").decay(1.0, u))):
            try:
                f(); bad.append([u, what, "accepted"])
            except ValueError:
                pass
            except Exception as e:
                bad.append([u, what, type(e).__name__])
    out["bad_units"] = bad
    json.dump(out, sys.stdout)
main()
