"""Implementation side of the C15/C06 query correspondence (PYTHONPATH=/repo).
stdin: JSON {"units": [...], "nuclides": [names] | null, "spell": bool}
stdout: JSON per nuclide: half-lives (hex) per unit through the three interfaces (checked equal here, reported once),
readable string, progeny/bfs/modes through three interfaces, pairwise look-ups inside the chain."""
import json, sys, math

def hx(x):
    return float(x).hex() if not isinstance(x, str) else "str:" + x

def main():
    import radioactivedecay as rd
    import numpy as np
    req = json.load(sys.stdin)
    d = rd.DEFAULTDATA
    if req.get("ds") == "synth":
        import os
        from radioactivedecay.decaydata import load_dataset
        d = load_dataset("synth", os.environ["VERIF_SYNTH_DIR"], load_sympy=True)
    names = req.get("nuclides") or [str(n) for n in d.nuclides]
    out = []
    for name in names:
        r = {"name": name, "hl": {}, "iface_mismatch": []}
        nuc = rd.Nuclide(name, d)
        inv = rd.Inventory({name: 1.0}, "num", True, d)
        for u in req["units"] + ["readable"]:
            try:
                a = d.half_life(name, u); b = nuc.half_life(u); c = inv.half_lives(u)[name]
                ha, hb, hc = hx(a), hx(b), hx(c)
                if not (ha == hb == hc):
                    r["iface_mismatch"].append(["half_life", u, ha, hb, hc])
                r["hl"][u] = ha
            except Exception as e:
                r["hl"][u] = "ERR " + type(e).__name__
        idx = d.nuclide_dict[name]
        pr = [list(map(str, x)) for x in (d.progeny[idx], nuc.progeny(), inv.progeny()[name])]
        bf = [[float(v).hex() for v in x] for x in (d.bfs[idx], nuc.branching_fractions(), inv.branching_fractions()[name])]
        md = [list(map(str, x)) for x in (d.modes[idx], nuc.decay_modes(), inv.decay_modes()[name])]
        for lab, tri in (("progeny", pr), ("bfs", bf), ("modes", md)):
            if not (tri[0] == tri[1] == tri[2]):
                r["iface_mismatch"].append([lab, tri])
        r["progeny"], r["bfs"], r["modes"] = pr[1], bf[1], md[1]
        r["mass"] = float(nuc.atomic_mass).hex()
        # pairwise look-ups against every member of the chain (links and non-links)
        if req.get("pairs"):
            chain = [str(x) for x in rd.Inventory({name: 1.0}, "num", True, d).decay(0.0).nuclides]
            pw = {}
            for other in chain:
                try:
                    pw[other] = [float(d.branching_fraction(name, other)).hex(), d.decay_mode(name, other)]
                except Exception as e:
                    pw[other] = "ERR " + type(e).__name__
            r["pairs"] = pw
        out.append(r)
    # ---- a second data set in the same process: other days-per-year, some other half-lives
    if req.get("second_dataset"):
        import copy
        from fractions import Fraction
        d2 = copy.deepcopy(d)
        d2.dataset_name = "verif_copy"
        d2.float_year_conv = 365.25
        d2.hldata = copy.deepcopy(d2.hldata)
        changed = {}
        for k in req["second_dataset"]:
            i = d2.nuclide_dict[k]
            hl, unit, rs = d2.hldata[i]
            d2.hldata[i] = (float(hl) * 2.0, unit, rs)
            changed[k] = True
        sec = {"ps": Fraction(1, 10**12), "ns": Fraction(1, 10**9), "us": Fraction(1, 10**6), "ms": Fraction(1, 1000), "s": 1, "m": 60, "h": 3600,
               "d": 86400, "y": 86400, "ky": 86400 * 10**3, "My": 86400 * 10**6}
        res2 = []
        probe = req["second_dataset"] + req.get("second_probe", [])
        for rounds in range(2):
            for k in probe:
                for u in ("s", "y", "ky", "d"):
                    a = d.half_life(k, u)          # default first (fills any cache)
                    b = d2.half_life(k, u)
                    b2 = rd.Nuclide(k, d2).half_life(u)
                    c = d.half_life(k, u)          # default again
                    # expected from each data set's own stored half-life
                    def expect(ds):
                        hl, unit, _ = ds.hldata[ds.nuclide_dict[k]]
                        if float(hl) == float("inf"): return float("inf")
                        f = Fraction(float(hl)) * Fraction(sec.get(str(unit), 0) if str(unit) != "\u03bcs" else Fraction(1, 10**6))
                        if str(unit) in ("y", "ky", "My"): f *= Fraction(float(ds.float_year_conv))
                        g = Fraction(sec[u]) * (Fraction(float(ds.float_year_conv)) if u in ("y", "ky") else 1)
                        return float(f / g)
                    res2.append({"nuc": k, "unit": u, "default": float(a), "copy": float(b), "copy_nuclide": float(b2), "default_again": float(c),
                                 "expect_default": expect(d), "expect_copy": expect(d2)})
        out.append({"second": res2})
    json.dump(out, sys.stdout)
main()
