(* C01 (second part) - the forward error of the double-precision evaluation, for ALL inputs:
   every evaluation of ((C @ E) @ C^-1) @ N0 that rounds each product and each accumulation step once
   (standard model with underflow term), in ANY accumulation order, stays within
   gamma_m * sum_j (sum_k |C_ik| |C^-1_kj|) |N0_j|  of the exact value for the same stored data. *)
From Coq Require Import Reals List Arith.
From RD Require Import Model.DecayR Model.Rounding.
From RD Require Proofs.RoundingP.
Import ListNotations.
Local Open Scope R_scope.

(* recursive summation of rounded products (Higham, Accuracy and Stability, Lemma 3.1/3.3 with underflow) *)
Theorem fl_dot_error : forall rnd u eta, std_model rnd u eta -> forall l,
  Rabs (fl_dot rnd l - lsum (fun ax => fst ax * snd ax) l)
  <= gam u (S (length l)) * lsum (fun ax => Rabs (fst ax * snd ax)) l
     + 2 * INR (length l) * eta * (1 + u) ^ length l.
Proof. exact Proofs.RoundingP.fl_dot_error. Qed.

(* the whole product chain, entry i of the result *)
Theorem decay_eval_error : forall rnd u eta, std_model rnd u eta ->
  forall n Cf Cif E n0 ks js i L L',
  (forall k, (k < n)%nat -> 0 <= E k <= 1) ->
  orders_ok rnd n Cf Cif E n0 ks js i ->
  (forall j, (j < n)%nat -> (length (ks i j) <= L)%nat) -> (length (js i) <= L')%nat ->
  Rabs (yhat rnd Cf Cif E n0 ks js i - Yexact n Cf Cif E n0 i)
  <= gam u (L + L' + 3) * sumn n (fun j => Sabs n Cf Cif i j * Rabs (n0 j))
     + eta * (1 + u) ^ (L + L' + 3) *
       (sumn n (fun j => (sumn n (fun k => Rabs (Cif k j)) + 2 * INR L) * Rabs (n0 j)) + 2 * INR L').
Proof. exact Proofs.RoundingP.decay_eval_error. Qed.
