(* Failing-input search for data edits: which rows / nuclides violate which certificate component.
   Pure computation (used only when a certificate lemma no longer checks). *)
From Coq Require Import ZArith NArith List Bool.
From Bignums Require Import BigQ.
From RD Require Import Base Model.DecayR Lib.Sparse Lib.CertQ Model.Dataset.
Import ListNotations.

Fixpoint indexed {A} (i : N) (l : list A) : list (N * A) :=
  match l with [] => [] | x :: r => (i, x) :: indexed (N.succ i) r end.

Definition bad_rows (f : N -> row bq -> bool) (m : mat bq) : list N :=
  map fst (filter (fun ir => negb (f (fst ir) (snd ir))) (indexed 0%N m)).

Section FB.
  Variable d : dataset.
  Variable tu : list (str * qlit).
  Variable yu : list str.
  Variable zd : list (Z * str).

  Definition bad_prod (A B : mat bq) := bad_rows (fun i r => check_row_eq bq BigQ.add BigQ.zero BigQ.eq_bool
                           (rowmul bq BigQ.mul r B) [(i, BigQ.one)]) A.
  Definition bad_CCi := bad_prod (Cq d) (Ciq d).
  Definition bad_CiC := bad_prod (Ciq d) (Cq d).
  Definition bad_MC_of (C : mat bq) (mu : list bq) (M : mat bq) :=
    bad_rows (fun i r => check_row_eq bq BigQ.add BigQ.zero BigQ.eq_bool
                (rowmul bq BigQ.mul r C)
                (scale_cols bq BigQ.mul BigQ.opp BigQ.zero mu (mrow bq C (N.to_nat i)))) M.
  Definition bad_MC := bad_MC_of (Cq d) (muq d) (Mq d).
  Definition bad_halflife :=
    map fst (filter (fun ihm =>
      match hl_dec (fst (snd ihm)) with
      | None => false
      | Some _ => match halflife_seconds d tu yu (fst (snd ihm)) with
                  | Some t => negb (BigQ.eq_bool (BigQ.mul (bq_of (snd (snd ihm))) t) BigQ.one)
                  | None => true
                  end
      end) (indexed 0%N (combine (ds_hl d) (ds_mu d)))).
  Definition bad_modes :=
    map fst (filter (fun x => negb (snd x))
      (indexed 0%N (map (fun npm => all2 (mode_ok zd (fst npm)) (fst (snd npm)) (snd (snd npm)))
                        (combine (ds_names d) (combine (ds_progeny d) (ds_modes d)))))).
  Definition bad_readable :=
    map fst (filter (fun ih => negb (readable_ok d tu yu (snd ih))) (indexed 0%N (ds_hl d))).
  Definition bad_forward :=
    bad_rows (fun m r => forallb (fun kx => N.ltb m (fst kx)) r) (Bq d).

  (* (component code, offending indices): 1 C*Ci rows, 2 Ci*C rows, 3 M*C rows, 4 half-lives,
     5 modes, 6 readable strings, 7 backward links *)
  Definition find_bad_all : list (N * list N) :=
    filter (fun x => match snd x with [] => false | _ => true end)
      [ (1%N, bad_CCi); (2%N, bad_CiC); (3%N, bad_MC); (4%N, bad_halflife);
        (5%N, bad_modes); (6%N, bad_readable); (7%N, bad_forward) ].
End FB.

(* first differing row between two generations *)
Definition qlit_eqb (a b : qlit) : bool := Z.eqb (qn a) (qn b) && Pos.eqb (qd a) (qd b).
Definition qrow_eqb (a b : qrow) : bool :=
  Nat.eqb (length a) (length b) &&
  forallb (fun xy => N.eqb (fst (fst xy)) (fst (snd xy)) && qlit_eqb (snd (fst xy)) (snd (snd xy))) (combine a b).
Fixpoint mexpr_eqb (a b : mexpr) : bool :=
  match a, b with
  | MRat p, MRat q => qlit_eqb p q
  | MAdd a1 a2, MAdd b1 b2 => mexpr_eqb a1 b1 && mexpr_eqb a2 b2
  | MMul a1 a2, MMul b1 b2 => mexpr_eqb a1 b1 && mexpr_eqb a2 b2
  | MPow z e, MPow z' e' => Z.eqb z z' && qlit_eqb e e'
  | _, _ => false
  end.
(* component codes: 10 = mu, 11 = exact atomic masses, 12 = C, 13 = C^-1, 14 = exact days-per-year, 15 = lengths *)
Definition gens_diff (a b : dataset) : list (N * list N) :=
  let diff (x y : list qrow) := map fst (filter (fun ir => negb (qrow_eqb (fst (snd ir)) (snd (snd ir))))
                                          (indexed 0%N (combine x y))) in
  filter (fun x => match snd x with [] => false | _ => true end)
    [ (12%N, diff (ds_c a) (ds_c b)); (13%N, diff (ds_ci a) (ds_ci b));
      (10%N, map fst (filter (fun ir => negb (qlit_eqb (fst (snd ir)) (snd (snd ir))))
                             (indexed 0%N (combine (ds_mu a) (ds_mu b)))));
      (11%N, map fst (filter (fun ir => negb (mexpr_eqb (fst (snd ir)) (snd (snd ir))))
                             (indexed 0%N (combine (ds_masses_e a) (ds_masses_e b)))));
      (14%N, if qlit_eqb (ds_year_e a) (ds_year_e b) then [] else [0%N]);
      (15%N, if Nat.eqb (length (ds_masses_e a)) (length (ds_masses_e b)) && Nat.eqb (length (ds_mu a)) (length (ds_mu b)) &&
                Nat.eqb (length (ds_c a)) (length (ds_c b)) && Nat.eqb (length (ds_ci a)) (length (ds_ci b)) then [] else [0%N]) ].
