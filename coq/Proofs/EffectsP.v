(* Soundness of the effect checkers of Model/Effects.v w.r.t. the heap semantics with version counters,
   and evaluation of the checkers on the generated summaries (Gen/EffectsGen.v). *)
From Coq Require Import NArith List Bool Lia.
From RD Require Import Base Model.Effects Gen.EffectsGen.
Import ListNotations.
Local Open Scope N_scope.

(* ---------- one-event view of the checkers *)
Definition ok1 (ae : aenv) (e : ev) : bool :=
  match e with
  | Bind _ _ => true
  | Mutate x => a_get ae x
  | MutateShared _ => false
  | AssignAttr _ => false
  | MayRaise => true
  end.
Definition anext (ae : aenv) (e : ev) : aenv :=
  match e with Bind x o => (x, a_origin ae o) :: ae | _ => ae end.

Lemma pure_from_cons : forall ae e r, pure_from ae (e :: r) = ok1 ae e && pure_from (anext ae e) r.
Proof. intros ae e r. destruct e; reflexivity. Qed.

Lemma atomic_from_cons : forall ae e r, (forall a, e <> AssignAttr a) ->
  atomic_from ae (e :: r) = ok1 ae e && atomic_from (anext ae e) r.
Proof.
  intros ae e r Hne. destruct e; try reflexivity.
  exfalso. apply (Hne attr). reflexivity.
Qed.

Section Sound.
  Variable shared_loc : name -> loc.
  Variable h0 : heap.                        (* the heap at the start of the call *)

  (* what the abstract environment promises about the concrete state *)
  Definition Rel (ae : aenv) (ce : cenv) (h : heap) : Prop :=
    next h0 <= next h /\
    (forall x, a_get ae x = true -> exists l, c_get ce x = Some l /\ next h0 <= l) /\
    (forall l, l < next h0 -> version h l = version h0 l) /\
    (forall a, attr_slot h a = attr_slot h0 a).

  Lemma step_rel : forall ae ce h e, ok1 ae e = true -> Rel ae ce h ->
    Rel (anext ae e) (fst (step shared_loc (ce, h) e)) (snd (step shared_loc (ce, h) e)).
  Proof.
    intros ae ce h e Hok [Hn [Hfr [Hv Ha]]].
    destruct e as [x o | x | p | a | ]; simpl in Hok; try discriminate.
    - (* Bind *)
      destruct o as [ | y | p]; simpl.
      + (* fresh *)
        repeat split; simpl.
        * lia.
        * intros z Hz. destruct (n_eqb x z).
          -- exists (next h). split; [reflexivity | exact Hn].
          -- apply Hfr. exact Hz.
        * exact Hv.
        * exact Ha.
      + (* copy of a local *)
        destruct (c_get ce y) as [ly | ] eqn:Hy; simpl.
        * repeat split; simpl; try assumption.
          intros z Hz. destruct (n_eqb x z).
          -- destruct (Hfr y Hz) as [l [Hl Hle]]. rewrite Hy in Hl. inversion Hl; subst l.
             exists ly. split; [reflexivity | exact Hle].
          -- apply Hfr. exact Hz.
        * repeat split; simpl; try assumption.
          intros z Hz. destruct (n_eqb x z).
          -- destruct (Hfr y Hz) as [l [Hl _]]. rewrite Hy in Hl. discriminate.
          -- apply Hfr. exact Hz.
      + (* shared object *)
        repeat split; simpl; try assumption.
        intros z Hz. destruct (n_eqb x z).
        * discriminate.
        * apply Hfr. exact Hz.
    - (* Mutate of a certainly-fresh local *)
      simpl. destruct (Hfr x Hok) as [l [Hl Hle]]. rewrite Hl.
      repeat split; simpl; try assumption.
      intros k Hk. destruct (N.eqb_spec k l) as [Heq | Hneq].
      + subst k. lia.
      + apply Hv. exact Hk.
    - (* MayRaise *)
      simpl. repeat split; assumption.
  Qed.

  Lemma fold_step_cons : forall e r ce h,
    fold_left (step shared_loc) (e :: r) (ce, h) =
    fold_left (step shared_loc) r (fst (step shared_loc (ce, h) e), snd (step shared_loc (ce, h) e)).
  Proof. intros e r ce h. rewrite <- surjective_pairing. reflexivity. Qed.

  (* a pure event list keeps the relation, for some final abstract environment *)
  Lemma pure_from_rel : forall evs ae ce h, pure_from ae evs = true -> Rel ae ce h ->
    exists ae', Rel ae' (fst (fold_left (step shared_loc) evs (ce, h)))
                        (snd (fold_left (step shared_loc) evs (ce, h))).
  Proof.
    induction evs as [ | e r IH]; intros ae ce h Hp HR.
    - exists ae. exact HR.
    - rewrite pure_from_cons in Hp. apply andb_true_iff in Hp. destruct Hp as [Hok Hr].
      rewrite fold_step_cons.
      apply (IH (anext ae e)); [exact Hr | ].
      apply step_rel; assumption.
  Qed.

  (* attribute re-bindings only *)
  Lemma only_assigns_run : forall evs ce h, only_assigns evs = true ->
    let h' := snd (fold_left (step shared_loc) evs (ce, h)) in
    (forall l, version h' l = version h l) /\
    (forall a, existsb (n_eqb a) (assigned_attrs evs) = false -> attr_slot h' a = attr_slot h a).
  Proof.
    induction evs as [ | e r IH]; intros ce h Ho.
    - simpl. split; reflexivity.
    - destruct e as [x o | x | p | b | ]; simpl in Ho; try discriminate.
      simpl fold_left.
      destruct (IH ce (H (next h) (version h)
                         (fun c => if n_eqb c b then N.succ (attr_slot h c) else attr_slot h c)) Ho)
        as [IHv IHa].
      split.
      + intros l. rewrite IHv. reflexivity.
      + intros a Hex. simpl in Hex. apply orb_false_iff in Hex. destruct Hex as [Hab Hex].
        rewrite (IHa a Hex). simpl. rewrite Hab. reflexivity.
  Qed.

  Lemma only_assigns_no_raise : forall evs j, only_assigns evs = true -> nth_error evs j <> Some MayRaise.
  Proof.
    induction evs as [ | e r IH]; intros j Ho Hn.
    - destruct j; discriminate.
    - destruct e as [x o | x | p | b | ]; simpl in Ho; try discriminate.
      destruct j as [ | j'].
      + discriminate.
      + simpl in Hn. exact (IH j' Ho Hn).
  Qed.

  (* everything before an event that may raise is pure *)
  Lemma atomic_prefix_pure : forall evs ae j, atomic_from ae evs = true ->
    nth_error evs j = Some MayRaise -> pure_from ae (firstn j evs) = true.
  Proof.
    induction evs as [ | e r IH]; intros ae j Hat Hn.
    - destruct j; discriminate.
    - destruct j as [ | j'].
      + reflexivity.
      + simpl in Hn. simpl firstn.
        destruct e as [x o | x | p | b | ]; simpl in Hat; simpl.
        * apply IH; assumption.
        * apply andb_true_iff in Hat. destruct Hat as [Hx Hr].
          rewrite Hx. simpl. apply IH; assumption.
        * discriminate.
        * exfalso. exact (only_assigns_no_raise r j' Hat Hn).
        * apply IH; assumption.
  Qed.

  (* successful run of an atomic event list *)
  Lemma atomic_from_run : forall evs ae ce h, atomic_from ae evs = true -> Rel ae ce h ->
    let h' := snd (fold_left (step shared_loc) evs (ce, h)) in
    (forall l, l < next h0 -> version h' l = version h0 l) /\
    (forall a, existsb (n_eqb a) (assigned_attrs evs) = false -> attr_slot h' a = attr_slot h0 a).
  Proof.
    induction evs as [ | e r IH]; intros ae ce h Hat HR.
    - destruct HR as [_ [_ [Hv Ha]]]. simpl. split.
      + exact Hv.
      + intros a _. apply Ha.
    - destruct e as [x o | x | p | b | ].
      + (* Bind *)
        rewrite atomic_from_cons in Hat by (intros a Ha; discriminate).
        apply andb_true_iff in Hat. destruct Hat as [Hok Hr].
        rewrite fold_step_cons.
        exact (IH _ _ _ Hr (step_rel ae ce h (Bind x o) Hok HR)).
      + (* Mutate *)
        rewrite atomic_from_cons in Hat by (intros a Ha; discriminate).
        apply andb_true_iff in Hat. destruct Hat as [Hok Hr].
        rewrite fold_step_cons.
        exact (IH _ _ _ Hr (step_rel ae ce h (Mutate x) Hok HR)).
      + simpl in Hat. discriminate.
      + (* first attribute re-binding: only re-bindings follow *)
        change (only_assigns (AssignAttr b :: r) = true) in Hat.
        destruct HR as [_ [_ [Hv Ha]]].
        destruct (only_assigns_run (AssignAttr b :: r) ce h Hat) as [Ov Oa].
        split.
        * intros l Hl. rewrite Ov. apply Hv. exact Hl.
        * intros a Hex. rewrite (Oa a Hex). apply Ha.
      + (* MayRaise *)
        rewrite atomic_from_cons in Hat by (intros a Ha; discriminate).
        apply andb_true_iff in Hat. destruct Hat as [Hok Hr].
        rewrite fold_step_cons.
        exact (IH _ _ _ Hr (step_rel ae ce h MayRaise Hok HR)).
  Qed.
End Sound.

Lemma rel_init : forall h, Rel h [] [] h.
Proof.
  intros h. repeat split.
  - lia.
  - intros x Hx. simpl in Hx. discriminate.
Qed.

Theorem pure_sound : forall shared_loc evs h, pure evs = true ->
  (forall p, (shared_loc p < next h)%N) ->
  let h' := snd (run shared_loc evs h) in
  (forall l, (l < next h)%N -> version h' l = version h l) /\ (forall a, attr_slot h' a = attr_slot h a).
Proof.
  intros shared_loc evs h Hp _. unfold run.
  destruct (pure_from_rel shared_loc h evs [] [] h Hp (rel_init h)) as [ae' [_ [_ [Hv Ha]]]].
  split; assumption.
Qed.

Theorem atomic_sound : forall shared_loc evs h, atomic evs = true ->
  (forall p, (shared_loc p < next h)%N) ->
  (forall j, nth_error evs j = Some MayRaise ->
     let hj := snd (run_until shared_loc j evs h) in
     (forall l, (l < next h)%N -> version hj l = version h l) /\ (forall a, attr_slot hj a = attr_slot h a)) /\
  (let h' := snd (run shared_loc evs h) in
   (forall l, (l < next h)%N -> version h' l = version h l) /\
   (forall a, existsb (n_eqb a) (assigned_attrs evs) = false -> attr_slot h' a = attr_slot h a)).
Proof.
  intros shared_loc evs h Hat _. split.
  - intros j Hj. unfold run_until.
    pose proof (atomic_prefix_pure evs [] j Hat Hj) as Hp.
    destruct (pure_from_rel shared_loc h (firstn j evs) [] [] h Hp (rel_init h)) as [ae' [_ [_ [Hv Ha]]]].
    split; assumption.
  - unfold run. exact (atomic_from_run shared_loc h evs [] [] h Hat (rel_init h)).
Qed.

(* ---------- the generated summaries of the current source pass the checks *)
Theorem all_calculations_pure : forallb (fun m => pure (snd m)) pure_methods = true.
Proof. vm_compute. reflexivity. Qed.

Theorem all_mutators_atomic :
  forallb (fun m => atomic (snd m) &&
                    forallb (fun a => n_eqb a [99; 111; 110; 116; 101; 110; 116; 115]%N) (assigned_attrs (snd m)))
          mutator_methods = true.
Proof. vm_compute. reflexivity. Qed.

Theorem setup_returns_fresh : forallb (fun o => match o with OFresh => true | _ => false end) helper_setup_returns = true.
Proof. vm_compute. reflexivity. Qed.

Print Assumptions pure_sound.
Print Assumptions atomic_sound.
Print Assumptions all_calculations_pure.
Print Assumptions all_mutators_atomic.
Print Assumptions setup_returns_fresh.
