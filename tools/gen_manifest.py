#!/usr/bin/env python3
"""Writes MANIFEST.json from the table below (kept in one place so it stays valid)."""
import json, os
VERIF = os.path.normpath(os.path.join(os.path.dirname(os.path.abspath(__file__)), ".."))
CLAIMED = {
 "C11": dict(
   text="Decided mainly by correspondence, with the state-machine theorem of failure atomicity (a raising add/subtract/remove leaves the state unchanged) machine-checked in Coq: random interleavings (<=30 steps) of calculations, read-outs, series/plots/CSV writing, operators and failing mutating calls on several live inventories of both classes; "
        "after EVERY step every live object and the shared data set are fingerprinted (array bytes, CSR triplets, srepr of SymPy objects, instance attributes), DEFAULTDATA == fresh load, and a probe calculation must be bit-identical to a fresh interpreter. Source-text ties of every inventory method (any edit breaks the tie).",
   note="Trusted: fingerprint harness; Coq kernel for step_atomic. Bit-level immutability of Python objects is runtime behaviour the functional model cannot exhibit: labelled partial; no verified effect analysis of the Python source.",
   technique="Coq proof of failure atomicity on the state machine + fingerprint history correspondence",
   ref="DESIGN.md section 4 C11"),
 "C16": dict(
   text="Machine-checked proof (Coq) about a transcription of the breadth-first diagram construction: for EVERY data-set view and root, no two nodes share a position (invariant of the loop, by induction); for the shipped data the whole property (node set = reachable set + one node per fission branch, one edge per link with mode and branching fraction, row = breadth-first depth computed independently, positions distinct) is a kernel-computed certificate over ALL 1512 roots. "
        "The extracted model and the implementation produce identical graphs (nodes, attributes, labels, edges, order) for all 1512 roots.",
   note="Trusted: Coq kernel+vm_compute; translators for data and label tables; hand model tied by recorded source text + all-roots identity. networkx/matplotlib drawing outside the model.",
   technique="Coq proof (loop invariant + exhaustive kernel certificate) + all-roots correspondence via extraction",
   ref="DESIGN.md section 4 C16"),
 "C17": dict(
   text="Machine-checked proof (Coq) about the model of __eq__/__ne__/__hash__: on every value domain where amount equality is an equivalence, inventory equality is reflexive, symmetric, transitive, holds exactly when both denote the same nuclide->amount map on equal data sets, any difference is detected, != is the negation, unrelated types give False/True, equal nuclides hash equal, data-set equality is an equivalence. "
        "Pairwise/triple correspondence over pools of nuclides, inventories (both classes, numeric types, spellings) and data sets, before and after calculations.",
   note="Trusted: Coq kernel (no axioms); hand model tied by recorded source text. Mixed float/SymPy amounts break transitivity and spec-equality in the real code (known findings F9a/F9b).",
   technique="Coq proof (equivalence + characterisation of dict equality) + pairwise/triple correspondence",
   ref="DESIGN.md section 4 C17"),

 "C01": dict(
   text="Machine-checked proof (Coq), for every data set whose kernel-computed certificate holds: the closed form C.exp(-Lt).C^-1.N0 is the unique solution of the decay ODE system assembled from half-lives, branching fractions and progeny (all real t, all N0); what the code computes "
        "(E filled only at the indices read off the sparsity pattern of C) equals that closed form, nuclides outside the reported set hold exactly zero (pattern certificate: equal patterns, transitively closed, = reachability closure); the reference values of the correspondence are PROVED interval enclosures (coq-interval) of the closed form. "
        "The double-precision forward error (1e-11 x ancestors' atoms) is decided per case against those enclosures.",
   note="Trusted: Coq kernel+vm_compute; Reals axioms, Uint63/PrimFloat primitives; coq-interval; tr_data; decay() control flow hand-modelled (tie: recorded source + correspondence). No rounding-analysis theorem for ALL inputs (partial).",
   technique="Coq proof (ODE solution + code-shape refinement + proved interval enclosure) + per-case forward-error correspondence",
   ref="DESIGN.md section 4 C01"),
 "C02": dict(
   text="Machine-checked proof (Coq): with the exact matrices the closed form satisfies the decay ODEs and the initial condition identically in t (t is a universally quantified real, not a sample) and is the unique solution; both pickle generations identical. "
        "Relative accuracy 1e-13 of InventoryHP is decided per case against the proved interval enclosure (up to 2200 bits) for deep chains and mixed inventories.",
   note="Trusted: as C01; SymPy Rational/evalf as oracles. The property as written is false below ~1e-315 x ancestors' atoms (known findings F10a/F10b, checked unguarded on the recorded inputs every run).",
   technique="Coq proof (ODE identity for all real t) + high-precision interval correspondence",
   ref="DESIGN.md section 4 C02"),
 "C03": dict(
   text="Machine-checked proof (Coq), for every certified data set: the cumulative decays of a radioactive nuclide are the Riemann integral of its activity under the exact solution (Coquelicot is_RInt), stable nuclides contribute/list nothing, the atom balance N_i(t)-N_i(0) = -D_i + sum_p b_pi D_p holds for every nuclide; "
        "the code's integrated-exponential product equals that integral; proved interval enclosures; per-case correspondence for both classes.",
   note="Trusted: as C01.",
   technique="Coq proof (FTC + algebraic atom balance + code-shape refinement) + interval correspondence",
   ref="DESIGN.md section 4 C03"),
 "C07": dict(
   text="Machine-checked proof (Coq), for every certified data set over the reals: decay for zero time is the identity, decay(t2) after decay(t1) = decay(t1+t2), any splitting into k steps (induction over the list), linearity in the inventory. "
        "Composed implementation calls (k<=4 splits, a*X+Y) are checked against proved enclosures with k x the single-call bound, both classes.",
   note="Trusted: as C01.",
   technique="Coq proof (semigroup + linearity) + composition correspondence against interval enclosures",
   ref="DESIGN.md section 4 C07"),

 "C08": dict(
   text="Machine-checked proof (Coq), for every number domain and every data set, about the state-machine model of the inventory operations: + and - are the nuclide-wise sum/difference and nothing else changes, * and / act pointwise, remove is the restriction, "
        "absent nuclides / non-nuclide keys are refused, the constructor keeps one entry per supplied key and refuses two spellings of one nuclide, a raising mutating call leaves the state unchanged, and alphabetical order is an invariant of operation sequences of any length (induction over the op list). "
        "Operation-sequence correspondence against the implementation after every step: float bits (PrimFloat) and exact rationals with their SymPy type (BigQ).",
   note="Trusted: Coq kernel; no axioms; translators for parse_nuclide and _convert_to_number; the operators' control flow is hand-modelled (tie: recorded source text + correspondence). Four genuine defects found and repaired by fix: commits (see known_findings.json).",
   technique="Coq proof (refinement of the operation state machine to a finite-map spec, invariant by induction) + op-sequence correspondence",
   ref="DESIGN.md section 4 C08"),
 "C09": dict(
   text="Machine-checked proof (Coq) about the parse functions regenerated from utils.py/nuclide.py on every run: every documented spelling (4 forms, any letter case element-first, arbitrary Unicode whitespace) of every element x every digit string 1..300 x every state parses to El-A[s] "
        "(mass number universally quantified, elements/states by kernel enumeration), canonical names are fixed points, ids round-trip, Z/A/state/id agree with the name. Three-way correspondence (extracted model, implementation, expected) over the quantifier's family.",
   note="Trusted: Coq kernel (closed under the global context: no axioms); translator tr_pure/pytr + Unicode tables from the running CPython; Lib/Py.v as model of str/int/list (validated by its own stream); ExtrOcamlBasic extraction.",
   technique="Coq proof about translator-generated parse functions + exhaustive three-way correspondence via extraction",
   ref="DESIGN.md section 4 C09"),
 "C10": dict(
   text="Machine-checked proof (Coq) about the generated functions with exceptions as values: for EVERY string parse_nuclide_str returns a name, NuclideStrError or ValueError (never IndexError/KeyError/...); for every id in [-1e10,1e10] a name or ValueError; whatever is accepted literally contains its element, mass digits and state up to ASCII case; "
        "parse_nuclide dispatches on type and checks membership. Amount/unit/key-type refusal at every entry point is decided by an enumerated entry-point stream on the implementation.",
   note="Trusted: as C09; int(a/b) == truncated division for |a|<2^53 (boundary ids in the stream). Amount checks have no theorem (labelled partial). Five genuine defects repaired by fix: commits; one known finding (numpy.float32 amounts).",
   technique="Coq proof (totality + literal-acceptance over all strings/ids) + malformed-input correspondence + entry-point enumeration",
   ref="DESIGN.md section 4 C10"),

 "C05": dict(
   text="Machine-checked proof (Coq): the unit tables and converter/inventory functions are regenerated from converters.py/inventory.py on every run; theorems state that the exact tables ARE the unit definitions of the property "
        "(SI prefixes, Ci, dpm, t=ton=Mg, u=micro), the float tables agree to 1 ulp with identical keys, kinds are disjoint, and over the reals for every data set: create-then-read-back is the identity in every unit, readings in two units differ by the defined ratio, "
        "activity = lambda*N, moles = N/N_A, mass = moles*M, unknown units and stable-nuclide activities are refused. The float class is tied bit-for-bit (PrimFloat) by correspondence on every unit.",
   note="Trusted: Coq kernel+vm_compute; Reals axioms; translators tr_pure/pytr/tr_tables/tr_data; PrimFloat = IEEE binary64. Float few-ulp bound decided per case (bit-exact model + 8-ulp predicate), not by a rounding theorem.",
   technique="Coq proof about translator-generated converter functions + PrimFloat bit-exact correspondence",
   ref="DESIGN.md section 4 C05"),
 "C06": dict(
   text="Machine-checked proof (Coq): the generated time table equals the property's 27 unit strings/factors/year set (float variant within 1 ulp), seconds_of(t,u) = t*factor*(days-per-year if year unit), synonyms interchangeable, unknown unit refused in every number domain, halving identity; "
        "the wiring of every unit through decay/cumulative_decays/series/half_life is decided by an exhaustive 27-unit bit-exact correspondence and the halving predicate on the implementation.",
   note="Trusted: as C05; half_life is hand-modelled (tie: recorded source text + exhaustive correspondence). decay(t,u)=decay(seconds,'s') is checked on the implementation for all 27 units, not proved about inventory.decay's source.",
   technique="Coq proof about generated time conversion + exhaustive 27-unit correspondence",
   ref="DESIGN.md section 4 C06"),
 "C14": dict(
   text="Machine-checked proof (Coq) about the generated fraction methods over the reals: each fraction is read-out/total, shares of a positive total of non-negative read-outs lie in [0,1] and sum to one, are invariant under scaling (read-outs are linear); "
        "the float class is tied bit-for-bit including CPython's compensated built-in sum().",
   note="Trusted: as C05 plus coq/Lib/Num.v pf_sum as model of CPython>=3.12 sum(). Class agreement sampled.",
   technique="Coq proof about generated fraction functions + PrimFloat bit-exact correspondence",
   ref="DESIGN.md section 4 C14"),
 "C15": dict(
   text="Machine-checked proof (Coq): exhaustive kernel-computed certificate over the shipped data (lists aligned, branching fractions decreasing, readable half-lives denote the stored duration, stable<->inf<->no progeny), half-life conversion by the exact unit ratio with a sound storage-unit shortcut, pairwise look-ups return the listed value for links and zero/empty otherwise; "
        "exhaustive correspondence over all 1512 nuclides x 27 units x three interfaces and all in-chain pairs.",
   note="Trusted: as C05; half_life/branching_fraction/decay_mode are hand-modelled (tie: recorded source text via tr_shapes + exhaustive bit-exact correspondence).",
   technique="Coq proof (data certificate + query model) + exhaustive correspondence",
   ref="DESIGN.md section 4 C15"),

 "C04": dict(
   text="Machine-checked proof (Coq 8.16): the exact matrices C, C^-1 and the rate matrix assembled in Coq from the listed half-lives, "
        "branching fractions and progeny satisfy C*C^-1 = I, C^-1*C = I, M*C = C*D (kernel-evaluated BigQ certificate over all 6595 non-zeros, "
        "regenerated from the data files on every run), and a generic theorem (for every data set with such a certificate) turns it into: the closed form "
        "solves the decay ODEs for all real t and all N(0), with the initial condition, and is the unique solution. Structural facts (acyclic/parents first, "
        "branching fractions, modes vs dZ/dA, mu*T=1, readable half-lives, both pickle generations identical) are exhaustive kernel computations.",
   note="Trusted: Coq kernel + vm_compute; stdlib real-number axioms, classic, functional extensionality, Uint63 primitive specs; translators tr_data.py/pickle_stub.py/tr_tables.py; "
        "the digest correspondence that ties the generated modules to the objects the running library holds. The 5e-12 float-vs-exact bound is labelled partial until Proofs/FloatData.v is in.",
   technique="Coq proof: kernel-computed BigQ certificate + generic ODE theorem over R (Coquelicot); translator tie + digest correspondence",
   ref="DESIGN.md section 4 C04"),
}
REASON_PENDING = "check not built yet in this round (machinery under construction; see DESIGN.md section 7 for the order)"
def main():
    props = [json.loads(l) for l in open(os.path.join(VERIF, "properties.jsonl"))]
    checks, na = [], []
    for p in props:
        pid = p["id"]
        if pid in CLAIMED:
            c = CLAIMED[pid]
            checks.append({
                "property_id": pid,
                "quick_cmd": f"./check {pid} --tier quick",
                "thorough_cmd": f"./check {pid} --tier thorough",
                "evidence_file": f"/verif/evidence/{pid}.json",
                "replay_cmd_template": f"./check {pid} --replay {{path}}",
                "engine": "coq-rd",
                "level_claimed": {"category": "proof", "text": c["text"], "design_ref": c["ref"]},
                "level_note": c["note"],
                "technique": c["technique"],
            })
        else:
            na.append({"property_id": pid, "reason": REASON_PENDING})
    m = {
        "version": 1,
        "setup_cmd": "./check --setup",
        "hooks": {"guard": "RADIOACTIVEDECAY_VERIF", "enable": "env RADIOACTIVEDECAY_VERIF=1 (no hook is currently present in /repo; the name is reserved)",
                  "baseline_off_cmd": "cd /repo && /venv/bin/python -m pytest -ra -q -p no:cacheprovider --timeout=900 --continue-on-collection-errors",
                  "source_commits": [], "add_only": True},
        "engines": [{"name": "coq-rd", "path": "/verif/coq", "serves_properties": sorted(CLAIMED),
                     "kind_free_text": "Coq 8.16 development: translators (tools/tr_*.py) regenerate coq/Gen from /repo on every run; hand-written model + proofs; correspondence drivers in tools/"}],
        "checks": checks,
        "not_applicable": na,
        "notes": "All checks: ./check <id> [--tier quick|thorough]; they regenerate coq/Gen from /repo's working tree, rebuild the affected .vo files, then run the correspondence streams.",
    }
    json.dump(m, open(os.path.join(VERIF, "MANIFEST.json"), "w"), indent=1)
main()
