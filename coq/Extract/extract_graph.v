(* Extraction of the diagram model with the float-free views of the shipped and the synthetic data set (ExtrOcamlBasic only). *)
From Coq Require Import Extraction ExtrOcamlBasic.
From RD Require Import Base Lib.Py Model.Digraph Model.DigraphD.
From RD Require Import Proofs.CertDefault.Graphs Proofs.CertSynth.SynthGraphs.
Extraction Language OCaml.
Extraction "gmodel.ml" build default_gv synth_gv g_name nodes edges.
