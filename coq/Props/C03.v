(* C03 - Cumulative decays equal integrated activity; atom balance closes.
   For every certified data set, over the reals, for all t and all initial vectors. *)
From Coq Require Import Reals ZArith NArith List Bool Arith.
From Coquelicot Require Import Coquelicot.
From Interval Require Import Real.Xreal Interval.Interval.
From RD Require Import Base Model.DecayR Lib.Sparse Lib.CertQ Model.Dataset Model.DecayModel Model.DecayI.
From RD Require Proofs.Bateman Proofs.DatasetCert Proofs.DecayModelP Proofs.DecayEnclosure.
Import ListNotations.
Local Open Scope R_scope.

Section AnyCertifiedDataset.
  Variable d : dataset.
  Hypothesis Hwf : wf_core d = true.
  Notation NtD := (Nt (nn d) (Cr d) (Cir d) (mur d)).
  Notation DcumD := (Dcum (nn d) (Cr d) (Cir d) (mur d) (stableb d)).

  (* the reported cumulative decays of a radioactive nuclide are the integral of its activity *)
  Theorem cumdecay_is_integral : forall n0 t i, (i < nn d)%nat -> stableb d i = false ->
    is_RInt (fun s => lam (mur d) i * NtD n0 s i) 0 t (DcumD n0 t i).
  Proof. exact (Proofs.Bateman.cumdecay_is_integral _ _ _ _ _ _ _ (Proofs.DatasetCert.wf_core_cert d Hwf)). Qed.

  Theorem cumdecay_stable_zero : forall n0 t i, (i < nn d)%nat -> stableb d i = true -> DcumD n0 t i = 0.
  Proof. exact (Proofs.Bateman.cumdecay_stable_zero _ _ _ _ _ _ _ (Proofs.DatasetCert.wf_core_cert d Hwf)). Qed.

  (* atom balance: amount(t) - amount(0) = - own decays + branching-fraction-weighted decays of the parents *)
  Theorem atom_balance : forall n0 t i, (i < nn d)%nat ->
    NtD n0 t i - n0 i = - DcumD n0 t i + sumn (nn d) (fun p => bfr d p i * DcumD n0 t p).
  Proof. exact (Proofs.Bateman.atom_balance _ _ _ _ _ _ _ (Proofs.DatasetCert.wf_core_cert d Hwf)). Qed.

  (* what the code computes (integrated exponentials only at radioactive indices of the pattern) is Dcum;
     stable nuclides are never listed *)
  Theorem cumulative_model_is_integral : chk_same_patterns d = true ->
    forall contents t i v, In (i, v) (cumulative_model d contents t) ->
      v = DcumD (n0_of contents) t i /\ stableb d i = false /\ (i < nn d)%nat.
  Proof. exact (Proofs.DecayModelP.cumulative_model_is_integral d Hwf). Qed.
End AnyCertifiedDataset.

(* the reference values of the correspondence are enclosures of the integral *)
Theorem reference_encloses_cumulative : forall prec (d : dataset) (n0I : list (N * I.type)) (tI : I.type)
    (n0 : nat -> R) (t : R),
  wf_core d = true -> chk_same_patterns d = true ->
  (forall j, contains (I.convert (lookupI j n0I)) (Xreal (n0 (N.to_nat j)))) ->
  contains (I.convert tI) (Xreal t) ->
  forall i e, In (i, e) (DcumI_all prec d n0I tI) ->
    contains (I.convert e) (Xreal (Dcum (nn d) (Cr d) (Cir d) (mur d) (stableb d) n0 t (N.to_nat i))).
Proof. exact Proofs.DecayEnclosure.reference_encloses_cumulative. Qed.
